// Harness vocabulary: instrumented element types, allocators, iterators, state builder,
// invariant checks.  Included by every harness TU *before* nothing else; it includes the
// header under test exactly as it is on disk (-I/repo/source/include).
#pragma once
#include <cstddef>
#include <cstdint>
#include <new>
#include <utility>
#include <type_traits>
#include <iterator>
#include <stdexcept>
#include <memory>
#include <limits>
#include "../rt/vf_rt.h"

#ifdef VF_FORCE_CONSTANT_EVALUATED
// C08: take every `if (std::is_constant_evaluated())` branch of the header at run time.
#include <algorithm>
#include <initializer_list>
#include <cassert>
#include <cstring>
#include <cstdlib>
#include <cstdio>
#include <compare>
#include <concepts>
namespace std { constexpr bool vf_ice() noexcept { return true; } }
#define is_constant_evaluated vf_ice
#endif
#include <gch/small_vector.hpp>
#ifdef VF_FORCE_CONSTANT_EVALUATED
#undef is_constant_evaluated
#endif

struct vf_exc { int code; };
#ifdef VF_FORCE_CONSTANT_EVALUATED
#define VF_CE 1
#else
#define VF_CE 0
#endif

#ifndef VF_MAXCAP
#define VF_MAXCAP 16
#endif

#define VF_STR2(x) #x
#define VF_STR(x) VF_STR2(x)

// ---------------------------------------------------------------- element types
// All element events go through opaque noexcept C hooks; the C side owns val/st/touch.
// (A C++ constructor must not read its own not-yet-initialised storage: UB, and clang folds it.)
#define VF_TR_DECL(NAME)                                                                 \
  struct NAME;                                                                            \
  extern "C" {                                                                            \
  void vf_tr_make_##NAME(NAME *, uint32_t) noexcept; void vf_tr_default_##NAME(NAME *) noexcept; \
  void vf_tr_copy_##NAME(NAME *, const NAME *) noexcept; void vf_tr_move_##NAME(NAME *, NAME *) noexcept; \
  void vf_tr_cassign_##NAME(NAME *, const NAME *) noexcept; void vf_tr_massign_##NAME(NAME *, NAME *) noexcept; \
  void vf_tr_dtor_##NAME(NAME *) noexcept; uint32_t vf_tr_state_##NAME(const NAME *) noexcept; \
  uint32_t vf_tr_touch_##NAME(const NAME *) noexcept; uint32_t vf_tr_val_##NAME(const NAME *) noexcept; }
#define VF_TR_COMMON(NAME)                                                              \
  uint32_t val, st, touch, pad_; /* owned by the C side */                                    \
  explicit NAME(int v) { if (vf_fault(VF_K_VALUE)) throw vf_exc{1}; vf_tr_make_##NAME(this, (uint32_t)v); } \
  NAME() { if (vf_fault(VF_K_DEFAULT)) throw vf_exc{1}; vf_tr_default_##NAME(this); }   \
  ~NAME() { vf_tr_dtor_##NAME(this); }                                                  \
  friend bool operator==(const NAME& a, const NAME& b) noexcept { return vf_tr_val_##NAME(&a) == vf_tr_val_##NAME(&b); } \
  friend bool operator!=(const NAME& a, const NAME& b) noexcept { return vf_tr_val_##NAME(&a) != vf_tr_val_##NAME(&b); } \
  friend bool operator<(const NAME& a, const NAME& b) noexcept { return (int)vf_tr_val_##NAME(&a) < (int)vf_tr_val_##NAME(&b); } \
  static void h_make(void *p, uint32_t v) noexcept { vf_tr_make_##NAME(static_cast<NAME *>(p), v); } \
  static uint32_t h_val(const NAME& e) noexcept { return vf_tr_val_##NAME(&e); }        \
  static uint32_t h_state(const void *p) noexcept { return vf_tr_state_##NAME(static_cast<const NAME *>(p)); } \
  static uint32_t h_touch(const void *p) noexcept { return vf_tr_touch_##NAME(static_cast<const NAME *>(p)); }
#define VF_COPY(NAME) vf_tr_copy_##NAME(this, &o)
#define VF_MOVE(NAME) vf_tr_move_##NAME(this, &o)
#define VF_CASSIGN(NAME) vf_tr_cassign_##NAME(this, &o)
#define VF_MASSIGN(NAME) vf_tr_massign_##NAME(this, &o)

VF_TR_DECL(Tr) VF_TR_DECL(TrX) VF_TR_DECL(TrM) VF_TR_DECL(TrMX) VF_TR_DECL(TrC) VF_TR_DECL(TrA)

// nothrow move, throwing copy
struct Tr {
  VF_TR_COMMON(Tr)
  Tr(const Tr& o) { if (vf_fault(VF_K_COPY)) throw vf_exc{1}; VF_COPY(Tr); }
  Tr(Tr&& o) noexcept { VF_MOVE(Tr); }
  Tr& operator=(const Tr& o) { if (vf_fault(VF_K_CASSIGN)) throw vf_exc{1}; VF_CASSIGN(Tr); return *this; }
  Tr& operator=(Tr&& o) noexcept { VF_MASSIGN(Tr); return *this; }
};
// throwing move, throwing copy (copy-insertable: strong guarantee must copy)
struct TrX {
  VF_TR_COMMON(TrX)
  TrX(const TrX& o) { if (vf_fault(VF_K_COPY)) throw vf_exc{1}; VF_COPY(TrX); }
  TrX(TrX&& o) { if (vf_fault(VF_K_MOVE)) throw vf_exc{1}; VF_MOVE(TrX); }
  TrX& operator=(const TrX& o) { if (vf_fault(VF_K_CASSIGN)) throw vf_exc{1}; VF_CASSIGN(TrX); return *this; }
  TrX& operator=(TrX&& o) { if (vf_fault(VF_K_MASSIGN)) throw vf_exc{1}; VF_MASSIGN(TrX); return *this; }
};
// nothrow move CONSTRUCTION, throwing move ASSIGNMENT (and throwing copies)
struct TrA {
  VF_TR_COMMON(TrA)
  TrA(const TrA& o) { if (vf_fault(VF_K_COPY)) throw vf_exc{1}; VF_COPY(TrA); }
  TrA(TrA&& o) noexcept { VF_MOVE(TrA); }
  TrA& operator=(const TrA& o) { if (vf_fault(VF_K_CASSIGN)) throw vf_exc{1}; VF_CASSIGN(TrA); return *this; }
  TrA& operator=(TrA&& o) { if (vf_fault(VF_K_MASSIGN)) throw vf_exc{1}; VF_MASSIGN(TrA); return *this; }
};
// move-only, nothrow move
struct TrM {
  VF_TR_COMMON(TrM)
  TrM(const TrM&) = delete;
  TrM(TrM&& o) noexcept { VF_MOVE(TrM); }
  TrM& operator=(const TrM&) = delete;
  TrM& operator=(TrM&& o) noexcept { VF_MASSIGN(TrM); return *this; }
};
// move-only, throwing move (not copy-insertable: excluded from the strong guarantee)
struct TrMX {
  VF_TR_COMMON(TrMX)
  TrMX(const TrMX&) = delete;
  TrMX(TrMX&& o) { if (vf_fault(VF_K_MOVE)) throw vf_exc{1}; VF_MOVE(TrMX); }
  TrMX& operator=(const TrMX&) = delete;
  TrMX& operator=(TrMX&& o) { if (vf_fault(VF_K_MASSIGN)) throw vf_exc{1}; VF_MASSIGN(TrMX); return *this; }
};
// copy-only (no move operations declared: rvalues copy)
struct TrC {
  VF_TR_COMMON(TrC)
  TrC(const TrC& o) { if (vf_fault(VF_K_COPY)) throw vf_exc{1}; VF_COPY(TrC); }
  TrC& operator=(const TrC& o) { if (vf_fault(VF_K_CASSIGN)) throw vf_exc{1}; VF_CASSIGN(TrC); return *this; }
};
// trivially copyable twin of Tr (same size, same value field)
struct Tv { int val; int pad0; int pad1; int pad2;   // 16 bytes like the instrumented types (power-of-two element size: measured 2x fewer solver variables)
  friend bool operator==(const Tv& a, const Tv& b) noexcept { return a.val == b.val; }
  friend bool operator!=(const Tv& a, const Tv& b) noexcept { return a.val != b.val; }
  friend bool operator<(const Tv& a, const Tv& b) noexcept { return a.val < b.val; } };

// legacy-style type without operator<=>: operator< orders by a key (low byte) only, operator== compares the whole value (finer than the order's equivalence)
struct Tw { int val; int pad0; int pad1; int pad2;
  friend bool operator==(const Tw& a, const Tw& b) noexcept { return a.val == b.val; }
  friend bool operator!=(const Tw& a, const Tw& b) noexcept { return a.val != b.val; }
  friend bool operator<(const Tw& a, const Tw& b) noexcept { return (a.val & 0xff) < (b.val & 0xff); } };

template <typename T> struct vf_elem;   // uniform access to element values
template <typename T> struct vf_elem_tr {
  static constexpr bool instrumented = true;
  static void make(void *p, uint32_t v) noexcept { T::h_make(p, v); }
  static uint32_t val(const T& e) noexcept { return T::h_val(e); }
  static uint32_t state(const void *p) noexcept { return T::h_state(p); }
  static uint32_t touch(const void *p) noexcept { return T::h_touch(p); }
  static uint32_t value_initialized() noexcept { return 0; }
};
template <> struct vf_elem<Tr>   : vf_elem_tr<Tr> {};
template <> struct vf_elem<TrX>  : vf_elem_tr<TrX> {};
template <> struct vf_elem<TrM>  : vf_elem_tr<TrM> {};
template <> struct vf_elem<TrMX> : vf_elem_tr<TrMX> {};
template <> struct vf_elem<TrC>  : vf_elem_tr<TrC> {};
template <> struct vf_elem<TrA>  : vf_elem_tr<TrA> {};
template <typename T> struct vf_elem_triv {
  static constexpr bool instrumented = false;
  static uint32_t state(const void *) noexcept { return VF_LIVE; }
  static uint32_t touch(const void *) noexcept { return 0; }
  static uint32_t value_initialized() noexcept { return 0; }
};
template <> struct vf_elem<int> : vf_elem_triv<int> {
  static void make(void *p, uint32_t v) noexcept { *static_cast<int *>(p) = (int)v; }
  static uint32_t val(const int& e) noexcept { return (uint32_t)e; } };
template <> struct vf_elem<unsigned char> : vf_elem_triv<unsigned char> {
  static void make(void *p, uint32_t v) noexcept { *static_cast<unsigned char *>(p) = (unsigned char)v; }
  static uint32_t val(const unsigned char& e) noexcept { return e; } };
template <> struct vf_elem<Tw> : vf_elem_triv<Tw> {
  static void make(void *p, uint32_t v) noexcept { static_cast<Tw *>(p)->val = (int)v; }
  static uint32_t val(const Tw& e) noexcept { return (uint32_t)e.val; } };
template <> struct vf_elem<Tv> : vf_elem_triv<Tv> {
  static void make(void *p, uint32_t v) noexcept { static_cast<Tv *>(p)->val = (int)v; }
  static uint32_t val(const Tv& e) noexcept { return (uint32_t)e.val; } };

// construct a value of element type T from a 32-bit value (the "user's argument")
template <typename T, bool I = vf_elem<T>::instrumented> struct vf_mk;
template <typename T> struct vf_mk<T, true>  { static T of(uint32_t v) { return T((int)v); } };
template <> struct vf_mk<int, false> { static int of(uint32_t v) { return (int)v; } };
template <> struct vf_mk<unsigned char, false> { static unsigned char of(uint32_t v) { return (unsigned char)v; } };
template <> struct vf_mk<Tw, false> { static Tw of(uint32_t v) { Tw t; t.val = (int)v; t.pad0 = 0; t.pad1 = 0; t.pad2 = 0; return t; } };
template <> struct vf_mk<Tv, false> { static Tv of(uint32_t v) { Tv t; t.val = (int)v; t.pad0 = 0; t.pad1 = 0; t.pad2 = 0; return t; } };
// what a stored element reads back as, for a value v given by the user
template <typename T> inline uint32_t vf_norm(uint32_t v) { return v; }
template <typename T> inline int vf_order_key(uint32_t v) { return (int)v; }   // what the element's operator< compares
template <> inline int vf_order_key<Tw>(uint32_t v) { return (int)(v & 0xffu); }
template <> inline uint32_t vf_norm<unsigned char>(uint32_t v) { return v & 0xffu; }

// ---------------------------------------------------------------- allocator
#define VF_A_POCCA 1u
#define VF_A_POCMA 2u
#define VF_A_POCS  4u
#define VF_A_IAE   8u
#define VF_A_SOCC  16u   // select_on_container_copy_construction returns id+100
#define VF_A_MAXSZ 32u   // max_size() returns vf_max_size_value
#define VF_A_NOTHROW 64u // allocate never faults

extern "C" { extern uint64_t vf_max_size_value; }

template <typename T, unsigned FL = 0, typename SizeT = std::size_t>
struct vf_alloc {
  using value_type = T;
  using size_type = SizeT;
  using difference_type = typename std::make_signed<SizeT>::type;
  using propagate_on_container_copy_assignment = std::integral_constant<bool, (FL & VF_A_POCCA) != 0>;
  using propagate_on_container_move_assignment = std::integral_constant<bool, (FL & VF_A_POCMA) != 0>;
  using propagate_on_container_swap = std::integral_constant<bool, (FL & VF_A_POCS) != 0>;
  using is_always_equal = std::integral_constant<bool, (FL & VF_A_IAE) != 0>;
  template <typename U> struct rebind { using other = vf_alloc<U, FL, SizeT>; };
  int id;
  vf_alloc() noexcept : id(0) {}
  explicit vf_alloc(int i) noexcept : id(i) {}
  vf_alloc(const vf_alloc&) noexcept = default;
  vf_alloc& operator=(const vf_alloc&) noexcept = default;
  template <typename U> vf_alloc(const vf_alloc<U, FL, SizeT>& o) noexcept : id(o.id) {}
  T *allocate(size_type n) {
    if (!(FL & VF_A_NOTHROW) && vf_fault(VF_K_ALLOC)) throw vf_exc{2};
    vf_assert((uint64_t)n <= (uint64_t)max_size(), "C12: allocator asked for more than max_size() elements");
#if defined(VF_MINHEAP) && !defined(VF_FORCE_CONSTANT_EVALUATED)
    vf_assert((uint64_t)n >= (uint64_t)(VF_MINHEAP), "C04: allocate() called for no more elements than fit the inline buffer");
#endif
    return static_cast<T *>(vf_allocate(ledger_id(), (uint64_t)n, sizeof(T)));
  }
  void deallocate(T *p, size_type n) noexcept { vf_deallocate(ledger_id(), p, (uint64_t)n, sizeof(T)); }
  // what the ledger records as the owner: all instances of an always-equal allocator are the same owner
  uint32_t ledger_id() const noexcept { return (FL & VF_A_IAE) ? 0u : (uint32_t)id; }
  size_type max_size() const noexcept {
    return (FL & VF_A_MAXSZ) ? (size_type)vf_max_size_value
                             : (size_type)((std::numeric_limits<size_type>::max)() / sizeof(T));
  }
  vf_alloc select_on_container_copy_construction() const noexcept {
    return (FL & VF_A_SOCC) ? vf_alloc(id + 100) : vf_alloc(id);
  }
};
template <typename T, typename U, unsigned FL, typename S>
inline bool operator==(const vf_alloc<T, FL, S>& a, const vf_alloc<U, FL, S>& b) noexcept { return (FL & VF_A_IAE) ? true : a.id == b.id; }
template <typename T, typename U, unsigned FL, typename S>
inline bool operator!=(const vf_alloc<T, FL, S>& a, const vf_alloc<U, FL, S>& b) noexcept { return !(a == b); }

// uniform construction / identification of allocators (std::allocator has no id: every instance is the same owner, id 0)
template <typename A> struct vf_amk { static A of(int id) { return A(id); } static uint32_t lid(const A& a) noexcept { return a.ledger_id(); } };
template <typename T> struct vf_amk<std::allocator<T>> { static std::allocator<T> of(int) { return std::allocator<T>(); } static uint32_t lid(const std::allocator<T>&) noexcept { return 0; } };
#define VF_STD_ALLOC_ID 0u

// ---------------------------------------------------------------- state builder and INV
// Private members of the header are reached with clang's -fno-access-control (harness TU only).
template <typename V> struct vf_sv;
template <typename T, unsigned N, typename A>
struct vf_sv<gch::small_vector<T, N, A>> {
  using V = gch::small_vector<T, N, A>;
  using E = vf_elem<T>;
  static constexpr unsigned inline_cap = N;

  // install (rep, cap, size, values) into a default-constructed (inline, empty) container.
  // cap == N  => inline representation; cap > N => heap block of exactly cap elements.
  static void install(V& v, unsigned cap, unsigned size, const uint32_t *vals) {
    T *p;
    typename V::base& b = (typename V::base&)v;   // C-style cast reaches the private base with either compiler
    if (VF_CE) {
      // forced constant evaluation: the "inline" buffer is a heap block of N elements obtained by the constructor
      if (cap > N) { b.deallocate(b.data_ptr(), N); p = b.unchecked_allocate((typename V::size_ty)cap); }
      else p = b.data_ptr();
    }
    else if (cap > N) p = b.unchecked_allocate((typename V::size_ty)cap);
    else p = b.storage_ptr();
    for (unsigned i = 0; i < size; ++i) E::make(static_cast<void *>(p + i), vals[i]);
    b.set_data(p, (typename V::size_ty)cap, (typename V::size_ty)size);
  }

  static uint32_t id_of(const V& v) noexcept { return vf_amk<A>::lid(v.get_allocator()); }

  // representation invariant (C02) + lifetime/ledger agreement (C03/C04) of one container
  static void check_inv(V& v, uint32_t expect_id_known, uint32_t expect_id) {
    const std::size_t sz = v.size(), cap = v.capacity();
    T *d = v.data();
    vf_assert(sz <= cap, "C02: size() <= capacity()");
    vf_assert(cap >= N, "C02: capacity() >= inline_capacity()");
    vf_assert(cap <= (v.max_size() > N ? v.max_size() : N), "C02: capacity() <= max(max_size(), inline_capacity())");
    if (VF_CE) {
      vf_assert(vf_block_is(d, cap, id_of(v)), "C08: under constant evaluation data() is an allocation of exactly capacity() elements");
    } else {
    vf_assert(v.inlined() == (cap == N), "C02: inlined() iff capacity() == inline_capacity()");
    if (N == 0) {
      vf_assert((cap == N) == (d == nullptr), "C02: zero inline capacity: data() null iff inlined");
    } else {
      vf_assert((cap == N) == (vf_ptr_in_object(d, &v, sizeof(V)) != 0), "C02: inlined iff data() points inside the object");
    }
    if (cap > N)
      vf_assert(vf_block_is(d, cap, id_of(v)), "C02: heap data() is a live allocator block of exactly capacity() elements owned by an equal allocator");
    }
    vf_assert(v.inlinable() == (sz <= N), "C02: inlinable() iff size() <= inline_capacity()");
    vf_assert((std::size_t)(v.end() - v.begin()) == sz, "C02: end()-begin() == size()");
    vf_assert((std::size_t)(v.cend() - v.cbegin()) == sz, "C02: cend()-cbegin() == size()");
    vf_assert((std::size_t)(v.rend() - v.rbegin()) == sz, "C02: rend()-rbegin() == size()");
    vf_assert(v.empty() == (sz == 0), "C02: empty() iff size()==0");
    if (expect_id_known) vf_assert(v.get_allocator() == vf_amk<A>::of((int)expect_id), "C07: get_allocator() is the expected allocator");
    for (std::size_t i = 0; i < VF_MAXCAP; ++i) if (i < cap) {
      if (i < sz) {
        vf_assert(&v[i] == d + i, "C02: &v[i] == data()+i");
        if (E::instrumented) { uint32_t s = E::state(d + i); vf_assert(s == VF_LIVE || s == VF_MOVED, "C03: slot below size() holds a live element"); }
      } else if (E::instrumented) {
        uint32_t s = E::state(d + i); vf_assert(s != VF_LIVE && s != VF_MOVED, "C03: slot in [size(),capacity()) holds no live element");
      }
    }
    vf_assert(cap <= VF_MAXCAP, "bound: capacity exceeds the harness inspection bound VF_MAXCAP");
  }
};
