// Converting inputs are value-converted: each stored element equals static_cast<DST>(source).
// Decides (tagged): C13 (ii).
//   VF_SRC / VF_DST source and destination element types;  VF_PTR 1: pointer pair (see below)
//   VF_VIA  0: raw pointer range (contiguous: selects the bulk-copy path when the header thinks it may)
//           1: small_vector<SRC> iterators (contiguous)   2: forward iterators (generic path)
#include "vf.hpp"
#ifndef VF_SRC
#define VF_SRC int
#endif
#ifndef VF_DST
#define VF_DST unsigned
#endif
#ifndef VF_N
#define VF_N 2
#endif
#ifndef VF_CAP
#define VF_CAP 4
#endif
#ifndef VF_VIA
#define VF_VIA 0
#endif
#ifndef VF_PTR
#define VF_PTR 0
#endif
#ifndef VF_CLEN
#define VF_CLEN 3
#endif
#define LEN VF_CLEN

enum UEnum : unsigned { ue0 = 0, ue1 = 1, ue_big = 0xfffffff0u };
enum class SEnum : int { a = -1, b = 0, c = 7 };
enum SmallEnum : unsigned char { se0, se1 };
struct Base1 { int b1; };
struct Base2 { int b2; };
struct Derived : Base1, Base2 { int d; };

using SRC = VF_SRC;
using DST = VF_DST;
using A = vf_alloc<DST, 0>;
using V = gch::small_vector<DST, VF_N, A>;
using VS = gch::small_vector<SRC, 3, vf_alloc<SRC, 0>>;

template <typename It> struct fwd_it {
  using iterator_category = std::forward_iterator_tag; using value_type = SRC; using difference_type = std::ptrdiff_t;
  using pointer = const SRC *; using reference = const SRC&;
  const SRC *p;
  reference operator*() const { return *p; }
  fwd_it& operator++() { ++p; return *this; }
  fwd_it operator++(int) { fwd_it t = *this; ++p; return t; }
  friend bool operator==(const fwd_it& a, const fwd_it& b) { return a.p == b.p; }
  friend bool operator!=(const fwd_it& a, const fwd_it& b) { return a.p != b.p; }
};

#if VF_PTR
static Derived objs[3];
static SRC mk_src(uint32_t in) { return static_cast<SRC>(&objs[in % 3]); }
#else
template <typename S> struct mk { static S of(uint32_t in) { return static_cast<S>(in); } };
template <> struct mk<float> { static float of(uint32_t in) { return (float)(int)(in & 0xffffu) - 32768.0f + ((in >> 31) ? 0.5f : 0.0f); } };
template <> struct mk<double> { static double of(uint32_t in) { return (double)(int)in + ((in & 1u) ? 0.25 : 0.0); } };
template <> struct mk<bool> { static bool of(uint32_t in) { return (in & 1u) != 0; } };
template <> struct mk<long long> { static long long of(uint32_t in) { return (long long)(((unsigned long long)(int)in << 20) ^ in); } };
template <> struct mk<unsigned long long> { static unsigned long long of(uint32_t in) { return ((unsigned long long)in << 32) | (in ^ 0x5a5a5a5au); } };
static SRC mk_src(uint32_t in) { return mk<SRC>::of(in); }
#endif

static bool same(const DST& a, const DST& b) { return a == b; }

extern "C" void vf_main(void) {
  uint32_t ins[LEN]; for (unsigned i = 0; i < LEN; ++i) ins[i] = vf_in_u32();
  const uint32_t len = vf_in_u32(), pos = vf_in_u32(), size = vf_in_u32();
  vf_assume(len <= LEN && size <= 1 && pos <= size);
  SRC src[LEN + 1]; for (unsigned i = 0; i < LEN; ++i) src[i] = mk_src(ins[i]);
  src[LEN] = mk_src(0);
  DST want[LEN]; for (unsigned i = 0; i < LEN; ++i) want[i] = static_cast<DST>(src[i]);   // the language's conversion
  {
    VS vs{vf_alloc<SRC, 0>(7)};
    for (unsigned i = 0; i < LEN; ++i) if (i < len) vs.push_back(src[i]);
#if VF_VIA == 0
    const SRC *first = src, *last = src + len;
#elif VF_VIA == 1
    auto first = vs.cbegin(), last = vs.cend();
#else
    fwd_it<SRC> first{src}, last{src + len};
#endif
#ifndef VF_PART
#define VF_PART 0
#endif
#if VF_PART == 0 || VF_PART == 1
    // 1. range constructor
    { V v(first, last, A(7));
      vf_witness("normal return");
      vf_assert(v.size() == len, "C13: range construction from a convertible type keeps the length");
      for (unsigned i = 0; i < LEN; ++i) if (i < len && i < v.size()) vf_assert(same(v[i], want[i]), "C13: range-constructed element equals static_cast<T>(source)"); }
    // 2. assign(range), insert(range) into a container that already holds `size` elements, append(range)
    { V v{A(7)};
      for (unsigned i = 0; i < 1; ++i) if (i < size) v.push_back(static_cast<DST>(src[LEN]));
      v.assign(first, last);
      vf_assert(v.size() == len, "C13: assign(range) from a convertible type keeps the length");
      for (unsigned i = 0; i < LEN; ++i) if (i < len && i < v.size()) vf_assert(same(v[i], want[i]), "C13: assigned element equals static_cast<T>(source)"); }
#endif
#if VF_PART == 0 || VF_PART == 2
    { V v{A(7)};
      for (unsigned i = 0; i < 1; ++i) if (i < size) v.push_back(static_cast<DST>(src[LEN]));
      vf_witness("normal return");
      v.insert(v.cbegin() + pos, first, last);
      vf_assert(v.size() == size + len, "C13: insert(range) from a convertible type adds the length");
      for (unsigned i = 0; i < LEN; ++i) if (i < len && pos + i < v.size()) vf_assert(same(v[pos + i], want[i]), "C13: inserted element equals static_cast<T>(source)");
    }
#endif
#if VF_PART == 0 || VF_PART == 4
    { V v{A(7)};
      for (unsigned i = 0; i < 1; ++i) if (i < size) v.push_back(static_cast<DST>(src[LEN]));
      vf_witness("normal return");
      v.append(first, last);
      for (unsigned i = 0; i < LEN; ++i) if (i < len && size + i < v.size()) vf_assert(same(v[size + i], want[i]), "C13: appended element equals static_cast<T>(source)"); }
#endif
#if VF_PART == 0 || VF_PART == 3
    vf_witness("normal return");
    // 3. single elements: emplace_back / emplace / resize-free construct from the source type
    { V v{A(7)};
      v.emplace_back(src[0]);
      vf_assert(same(v[0], want[0]), "C13: emplace_back(source) stores static_cast<T>(source)");
      v.emplace(v.cbegin(), src[1]);
      vf_assert(same(v[0], want[1]) && same(v[1], want[0]), "C13: emplace(pos, source) stores static_cast<T>(source)");
      v.emplace_back(src[2]); v.emplace_back(src[0]);   // reallocating (N == 2)
      vf_assert(same(v[2], want[2]) && same(v[3], want[0]) && same(v[0], want[1]), "C13: reallocating emplace_back(source) stores static_cast<T>(source)"); }
#endif
  }
  vf_assert(vf_live_blocks() == 0, "C04: every allocated block was released by the time the containers are destroyed");
}
