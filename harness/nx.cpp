// C18 (b): the declared noexcept conditions and iterator / nested-type traits equal the documented ones.
// These are compile-time constants: the C++ front end evaluates both sides, the solver only compares the
// constants that reach the IR (stated as such in the evidence).  One assertion per (operation, cell).
#include "vf.hpp"
#include <memory>

template <bool MC, bool MA, bool SW>
struct El {
  int v;
  El() noexcept : v(0) {}
  El(const El& o) : v(o.v) {}
  El(El&& o) noexcept(MC) : v(o.v) {}
  El& operator=(const El& o) { v = o.v; return *this; }
  El& operator=(El&& o) noexcept(MA) { v = o.v; return *this; }
  friend void swap(El& a, El& b) noexcept(SW) { int t = a.v; a.v = b.v; b.v = t; }
};
struct ThrowingDefaultAlloc : std::allocator<int> {
  using value_type = int;
  template <typename U> struct rebind { using other = std::allocator<U>; };
};

#if __cplusplus >= 201703L
template <typename T> constexpr bool nt_swappable() { return std::is_nothrow_swappable<T>::value; }
#else
namespace nx_adl { using std::swap; template <typename T> constexpr bool f() { return noexcept(swap(std::declval<T&>(), std::declval<T&>())); } }
template <typename T> constexpr bool nt_swappable() { return nx_adl::f<T>(); }
#endif

template <typename A> struct alloc_traits_of {
  static constexpr bool is_std = false;
};
template <typename T> struct alloc_traits_of<std::allocator<T>> { static constexpr bool is_std = true; };

template <typename A> constexpr bool always_equal() {
#if defined(__cpp_lib_allocator_traits_is_always_equal) && __cpp_lib_allocator_traits_is_always_equal >= 201411L
  return std::allocator_traits<A>::is_always_equal::value;   // available whenever the standard library provides the trait
#else
  return false;   // is_always_equal-based noexcept is a feature whose availability varies (documented)
#endif
}

#define CHECK(cond, what, cell) vf_assert((cond) ? 1u : 0u, "C18: " what " [" cell "]")

template <typename T, unsigned N, typename A>
static void cell(const char *) {}

#define CELL(MC, MA, SW, N, ALLOC, ANAME)                                                                             \
  {                                                                                                                   \
    using T = El<MC, MA, SW>; using A = ALLOC; using V = gch::small_vector<T, N, A>;                                   \
    using VL = gch::small_vector<T, (N > 0 ? N - 1 : 0), A>; using VG = gch::small_vector<T, N + 1, A>;              \
    constexpr bool nmc = std::is_nothrow_move_constructible<T>::value, nma = std::is_nothrow_move_assignable<T>::value;\
    constexpr bool nsw = nt_swappable<T>();                                                                            \
    constexpr bool amov = alloc_traits_of<A>::is_std || std::allocator_traits<A>::propagate_on_container_move_assignment::value || always_equal<A>(); \
    constexpr bool aswp = alloc_traits_of<A>::is_std || std::allocator_traits<A>::propagate_on_container_swap::value || always_equal<A>(); \
    CHECK(noexcept(V()) == noexcept(A()), "default constructor is noexcept iff the allocator's default constructor is", #MC #MA #SW " N=" #N " " ANAME); \
    CHECK(noexcept(V(std::declval<V&&>())) == (nmc || N == 0), "move constructor noexcept == nothrow-move-constructible || N==0", #MC #MA #SW " N=" #N " " ANAME); \
    CHECK(noexcept(V(std::declval<const A&>())), "allocator constructor is noexcept", #MC #MA #SW " N=" #N " " ANAME);     \
    CHECK(noexcept(std::declval<V&>() = std::declval<V&&>()) == (amov && ((nma && nmc) || N == 0)), "move assignment noexcept == documented condition", #MC #MA #SW " N=" #N " " ANAME); \
    CHECK(noexcept(std::declval<V&>().assign(std::declval<V&&>())) == (amov && ((nma && nmc) || N == 0)), "assign(small_vector&&) noexcept == documented condition", #MC #MA #SW " N=" #N " " ANAME); \
    CHECK(noexcept(std::declval<V&>().swap(std::declval<V&>())) == (aswp && ((nmc && nma && nsw) || N == 0)), "swap noexcept == documented condition", #MC #MA #SW " N=" #N " " ANAME); \
    CHECK(noexcept(std::declval<V&>().clear()), "clear is noexcept", #MC #MA #SW " N=" #N " " ANAME);                    \
    CHECK(noexcept(std::declval<const V&>().size()) && noexcept(std::declval<const V&>().capacity()) && noexcept(std::declval<const V&>().max_size()) && \
          noexcept(std::declval<const V&>().empty()) && noexcept(std::declval<V&>().data()) && noexcept(std::declval<V&>().begin()) && noexcept(std::declval<V&>().end()) && \
          noexcept(std::declval<const V&>().get_allocator()) && noexcept(std::declval<const V&>().inlined()) && noexcept(std::declval<const V&>().inlinable()), \
          "observers are noexcept", #MC #MA #SW " N=" #N " " ANAME);                                                     \
    CHECK(noexcept(VG(std::declval<V&&>())) == nmc, "constructor from a smaller-capacity rvalue noexcept == nothrow-move-constructible", #MC #MA #SW " N=" #N " " ANAME); \
    CHECK(!noexcept(V(std::declval<VG&&>())), "constructor from a greater-capacity rvalue is not noexcept", #MC #MA #SW " N=" #N " " ANAME); \
    CHECK(noexcept(std::declval<VG&>().assign(std::declval<V&&>())) == (amov && nma && nmc), "assign(smaller-capacity&&) noexcept == documented condition", #MC #MA #SW " N=" #N " " ANAME); \
    CHECK(!noexcept(std::declval<V&>().assign(std::declval<VG&&>())), "assign(greater-capacity&&) is not noexcept", #MC #MA #SW " N=" #N " " ANAME); \
    using It = typename V::iterator; using CIt = typename V::const_iterator;                                         \
    CHECK(std::is_trivially_copyable<It>::value && std::is_trivially_copyable<CIt>::value, "iterators are trivially copyable", #MC #MA #SW " N=" #N " " ANAME); \
    CHECK((std::is_base_of<std::random_access_iterator_tag, typename std::iterator_traits<It>::iterator_category>::value), "iterators are random-access", #MC #MA #SW " N=" #N " " ANAME); \
    CHECK((std::is_same<typename V::value_type, T>::value && std::is_same<typename V::allocator_type, A>::value && std::is_same<typename V::reference, T&>::value && \
           std::is_same<typename V::const_reference, const T&>::value && std::is_same<typename V::pointer, typename std::allocator_traits<A>::pointer>::value && \
           std::is_same<typename V::size_type, typename std::allocator_traits<A>::size_type>::value && \
           std::is_same<typename V::reverse_iterator, std::reverse_iterator<It>>::value && std::is_same<typename V::const_reverse_iterator, std::reverse_iterator<CIt>>::value && \
           std::is_signed<typename V::difference_type>::value), "standard nested types", #MC #MA #SW " N=" #N " " ANAME); \
    (void)sizeof(VL);                                                                                                 \
  }

template <typename T> using A_plain = vf_alloc<T>;
template <typename T> using A_iae = vf_alloc<T, VF_A_IAE>;
template <typename T> using A_pocma = vf_alloc<T, VF_A_POCMA>;
template <typename T> using A_pocs = vf_alloc<T, VF_A_POCS>;
template <typename T> using A_both = vf_alloc<T, VF_A_POCMA | VF_A_POCS>;
#define CELLS_ALLOC(MC, MA, SW, N)                                                                      \
  CELL(MC, MA, SW, N, std::allocator<T>, "std::allocator")                                                \
  CELL(MC, MA, SW, N, A_plain<T>, "plain")                                                               \
  CELL(MC, MA, SW, N, A_iae<T>, "always-equal")                                              \
  CELL(MC, MA, SW, N, A_pocma<T>, "POCMA")                                                   \
  CELL(MC, MA, SW, N, A_pocs<T>, "POCS")                                                     \
  CELL(MC, MA, SW, N, A_both<T>, "POCMA+POCS")
#define CELLS_N(MC, MA, SW) CELLS_ALLOC(MC, MA, SW, 0) CELLS_ALLOC(MC, MA, SW, 2)

extern "C" void vf_main(void) {
  vf_witness("normal return");
  CELLS_N(true, true, true) CELLS_N(true, true, false) CELLS_N(true, false, true) CELLS_N(true, false, false)
  CELLS_N(false, true, true) CELLS_N(false, true, false) CELLS_N(false, false, true) CELLS_N(false, false, false)
#if __cplusplus >= 202002L && defined(__cpp_lib_concepts) && !defined(GCH_DISABLE_CONCEPTS)
  // (with GCH_DISABLE_CONCEPTS the header deliberately uses no concept machinery, including iterator_concept: feature availability, not checked)
  vf_assert(std::contiguous_iterator<gch::small_vector<int, 2>::iterator> ? 1u : 0u, "C18: iterators model std::contiguous_iterator");
#endif
}
