// One-container operations: one step from an arbitrary valid pre-state.
// Decides (tagged assertions): C01 C02 C03 C04 C05 C06 C10 C11 C13(twin) C14 C18(a).
// Configuration macros (set by run.py):
//   VF_ELEM  element type          VF_N     inline capacity        VF_CAP  pre-state capacity (==VF_N: inline)
//   VF_OP    operation code        VF_AFL   allocator flags        VF_FMASK fault kinds (0: none)
//   VF_SIZE  (optional) pinned pre-state size                   VF_ALIAS argument aliases v[ai]
//   VF_MAXCNT bound on counts / range lengths
#include "vf_pre.hpp"
#include "vf.hpp"
#ifdef VF_USE_PZ
#include "vf_pz.hpp"   // element type whose moves change their source
#endif

#ifndef VF_ELEM
#define VF_ELEM int
#endif
#ifndef VF_N
#define VF_N 2
#endif
#ifndef VF_CAP
#define VF_CAP VF_N
#endif
#ifndef VF_AFL
#define VF_AFL 0
#endif
#ifndef VF_FMASK
#define VF_FMASK 0
#endif
#ifndef VF_NFAULTS
#define VF_NFAULTS 1
#endif
#ifndef VF_ALIAS
#define VF_ALIAS 0
#endif
#ifndef VF_MAXCNT
#define VF_MAXCNT 3
#endif

#define OP_push_back_c   1
#define OP_push_back_m   2
#define OP_emplace_back  3
#define OP_pop_back      4
#define OP_insert_c      5
#define OP_insert_m      6
#define OP_emplace       7
#define OP_insert_n      8
#define OP_insert_range  9
#define OP_insert_il     10
#define OP_erase1        11
#define OP_erase_range   12
#define OP_resize        13
#define OP_resize_v      14
#define OP_assign_n      15
#define OP_assign_range  16
#define OP_assign_il     17
#define OP_clear         18
#define OP_reserve       19
#define OP_shrink        20
#define OP_append_range  21
#define OP_append_il     22
#define OP_at            23
#define OP_access        24
#define OP_assign_op_il  25

#ifndef VF_OP
#define VF_OP OP_insert_n
#endif

using T = VF_ELEM;
#ifndef VF_SIZET
#define VF_SIZET std::size_t
#endif
#ifdef VF_STDALLOC
using A = std::allocator<T>;
#define AID 0
#else
using A = vf_alloc<T, VF_AFL, VF_SIZET>;
#define AID 7
#endif
using V = gch::small_vector<T, VF_N, A>;
using S = vf_sv<V>;
using E = vf_elem<T>;

#define VF_MAXM (VF_CAP + VF_MAXCNT + 2)

extern "C" void vf_main(void) {
  // ---- inputs (fixed order, unconditional)
  uint32_t vals[VF_CAP + 1];
  for (unsigned i = 0; i < VF_CAP; ++i) vals[i] = vf_norm<T>(vf_in_u32());
#ifdef VF_SIZE
  const uint32_t size = VF_SIZE;
#else
  const uint32_t size = vf_in_u32();
#endif
  vf_assume(size <= VF_CAP);
  const uint32_t a = vf_in_u32();      // position / index / count (op specific)
#ifdef VF_B
  const uint32_t b = VF_B; (void)vf_in_u32();
#else
  const uint32_t b = vf_in_u32();      // second position / count
#endif
  const uint32_t ai = vf_in_u32();     // alias index
  const uint32_t x = vf_norm<T>(vf_in_u32());
  uint32_t ys[3]; for (unsigned i = 0; i < 3; ++i) ys[i] = vf_norm<T>(vf_in_u32());
  const uint32_t fat1 = vf_in_u32(), fat2 = vf_in_u32();
#ifdef VF_BIGCNT
  // a count / requested size anywhere in the range of size_type (64-bit composed of two inputs); the harness only keeps those beyond max_size()
  const uint64_t bigcnt = (uint64_t)(VF_SIZET)(((uint64_t)vf_in_u32() << 32) | vf_in_u32());
#endif

#ifdef VF_MAXSZ
  vf_max_size_value = VF_MAXSZ;   // the allocator's max_size(): a small harness-chosen value so that 'one past max_size' is reachable
#endif
  const int32_t live_before_all = vf_tr_live();
  {
    V v(vf_amk<A>::of(AID));
    S::install(v, VF_CAP, size, vals);
    S::check_inv(v, 1, AID);   // the installed pre-state satisfies INV (harness self-check)

    // ---- model
    uint32_t m[VF_MAXM]; uint32_t msz = size;
    for (unsigned i = 0; i < VF_MAXM; ++i) m[i] = i < size ? vals[i] : 0;

    // ---- per-op preconditions, expected result
    uint64_t nsz = size;       // model size after a successful op
    uint32_t fm = size;        // first modified index (prefix [0,fm) must stay untouched)
    int growing = 0;           // op may need to grow
    int strong = 0;            // op promises the strong guarantee (for this argument)
    int strong_capdata = 0;    // ... including capacity() and data()
    uint64_t required = 0;     // capacity a reallocation must at least provide
    uint32_t argval = x;
#if VF_ALIAS
    vf_assume(ai < size);
    argval = vals[ai];
#endif
    (void)ai; (void)b; (void)ys;

#if VF_OP == OP_push_back_c || VF_OP == OP_push_back_m || VF_OP == OP_emplace_back
    nsz = size + 1; fm = size; growing = 1; strong = 1; strong_capdata = 1;
#elif VF_OP == OP_pop_back
    vf_assume(size >= 1); nsz = size - 1; fm = size - 1;
#elif VF_OP == OP_insert_c || VF_OP == OP_insert_m || VF_OP == OP_emplace
    vf_assume(a <= size); nsz = size + 1; fm = a; growing = 1; strong = (a == size); strong_capdata = 1;
#elif VF_OP == OP_insert_n
#ifdef VF_BIGCNT
    vf_assume(a <= size); nsz = (uint64_t)size + bigcnt; fm = a; growing = 1;
#else
    vf_assume(a <= size); vf_assume(b <= VF_MAXCNT); nsz = size + b; fm = a; growing = 1; strong = (a == size && b == 1); strong_capdata = 1;
#endif
#elif VF_OP == OP_insert_range || VF_OP == OP_insert_il
    vf_assume(a <= size); vf_assume(b <= 3); nsz = size + b; fm = a; growing = 1; strong = (a == size && b == 1); strong_capdata = 1;
#elif VF_OP == OP_erase1
    vf_assume(a < size); nsz = size - 1; fm = a;
#elif VF_OP == OP_erase_range
    vf_assume(a <= b); vf_assume(b <= size); nsz = size - (b - a); fm = a;
#elif VF_OP == OP_resize || VF_OP == OP_resize_v
#ifdef VF_BIGCNT
    nsz = bigcnt; fm = size; growing = 1; strong = 1; strong_capdata = 1;
#else
    vf_assume(a <= VF_CAP + VF_MAXCNT); nsz = a; fm = a < size ? a : size; growing = 1; strong = 1; strong_capdata = 1;
#endif
#elif VF_OP == OP_assign_n
#ifdef VF_BIGCNT
    nsz = bigcnt; fm = 0; growing = 1;
#else
    vf_assume(a <= VF_CAP + VF_MAXCNT); nsz = a; fm = 0; growing = 1;
#endif
#elif VF_OP == OP_assign_range || VF_OP == OP_assign_il || VF_OP == OP_assign_op_il
    vf_assume(b <= 3); nsz = b; fm = 0; growing = 1;
#elif VF_OP == OP_clear
    nsz = 0; fm = 0;
#elif VF_OP == OP_reserve
#ifndef VF_BIGCNT
    vf_assume(a <= VF_CAP + VF_MAXCNT + 2);
#endif
    nsz = size; growing = 1; strong = 1; strong_capdata = 1;
#elif VF_OP == OP_shrink
    nsz = size; strong = 1; strong_capdata = 1;
#elif VF_OP == OP_append_range || VF_OP == OP_append_il
    vf_assume(b <= 3); nsz = size + b; fm = size; growing = 1; strong = 1;
#elif VF_OP == OP_at || VF_OP == OP_access
    nsz = size;
#else
#error "unknown VF_OP"
#endif
    required = nsz;
#if VF_OP == OP_reserve
    required = a;
#ifdef VF_BIGCNT
    required = bigcnt;
#endif
#endif
#ifdef VF_BIGCNT
    vf_assume(required > (uint64_t)V(vf_amk<A>::of(AID)).max_size());   // only requests beyond max_size(): each must throw std::length_error before touching anything
#define CNT_A ((typename V::size_type)bigcnt)
#define CNT_B ((typename V::size_type)bigcnt)
#else
#define CNT_A ((typename V::size_type)a)
#define CNT_B ((typename V::size_type)b)
#endif

    // ---- harness-owned argument objects
    T arg = vf_mk<T>::of(x);
    T src[3] = { vf_mk<T>::of(ys[0]), vf_mk<T>::of(ys[1]), vf_mk<T>::of(ys[2]) };
    const int32_t harness_objs = E::instrumented ? 4 : 0;
    (void)arg; (void)src;

    // ---- snapshot
    const std::size_t cap0 = v.capacity();
    T *const data0 = v.data();
    const uint32_t nalloc0 = vf_nalloc(), ndealloc0 = vf_ndealloc();
    uint32_t touch0[VF_CAP + 1];
    for (unsigned i = 0; i < VF_CAP; ++i) touch0[i] = i < size ? E::touch(data0 + i) : 0;
    const uint32_t blocks0 = vf_live_blocks();
    const uint32_t ev0 = vf_tr_events(); (void)ev0;

    // growth capacity the run-time rule gives for this pre-state and request (the kernel has no constant-evaluation branch)
    std::size_t kexp = cap0;
    if (required > cap0 && required <= (uint64_t)v.max_size()) kexp = (std::size_t)((typename V::base&)v).unchecked_calculate_new_capacity((typename V::size_ty)required);

    // ---- the operation
    int threw = 0;
    std::size_t ret = 0; int have_ret = 0; uint32_t retval = 0; int have_retval = 0;
    vf_fault_arm(VF_FMASK, fat1, VF_NFAULTS >= 2 ? fat2 : 0);
    try {
#if VF_ALIAS
      const T& argref = v[ai];
#else
      const T& argref = arg;
#endif
      (void)argref;
#if VF_OP == OP_push_back_c
      v.push_back(argref);
#elif VF_OP == OP_push_back_m
      v.push_back(std::move(arg));
#elif VF_OP == OP_emplace_back
#if VF_ALIAS
      { T& r = v.emplace_back(argref); retval = E::val(r); have_retval = 1; ret = (std::size_t)(&r - v.data()); have_ret = 1; }
#else
      { T& r = v.emplace_back(vf_mk<T>::of(x)); retval = E::val(r); have_retval = 1; ret = (std::size_t)(&r - v.data()); have_ret = 1; }
#endif
#elif VF_OP == OP_pop_back
      v.pop_back();
#elif VF_OP == OP_insert_c
      { auto it = v.insert(v.cbegin() + a, argref); ret = (std::size_t)(it - v.begin()); have_ret = 1; }
#elif VF_OP == OP_insert_m
      { auto it = v.insert(v.cbegin() + a, std::move(arg)); ret = (std::size_t)(it - v.begin()); have_ret = 1; }
#elif VF_OP == OP_emplace
      { auto it = v.emplace(v.cbegin() + a, argref); ret = (std::size_t)(it - v.begin()); have_ret = 1; }
#elif VF_OP == OP_insert_n
      { auto it = v.insert(v.cbegin() + a, CNT_B, argref); ret = (std::size_t)(it - v.begin()); have_ret = 1; }
#elif VF_OP == OP_insert_range
      { auto it = v.insert(v.cbegin() + a, (const T *)src, (const T *)src + b); ret = (std::size_t)(it - v.begin()); have_ret = 1; }
#elif VF_OP == OP_insert_il
      { typename V::iterator it;
        if (b == 0) it = v.insert(v.cbegin() + a, std::initializer_list<T>{});
        else if (b == 1) it = v.insert(v.cbegin() + a, {src[0]});
        else if (b == 2) it = v.insert(v.cbegin() + a, {src[0], src[1]});
        else it = v.insert(v.cbegin() + a, {src[0], src[1], src[2]});
        ret = (std::size_t)(it - v.begin()); have_ret = 1; }
#elif VF_OP == OP_erase1
      { auto it = v.erase(v.cbegin() + a); ret = (std::size_t)(it - v.begin()); have_ret = 1; }
#elif VF_OP == OP_erase_range
      { auto it = v.erase(v.cbegin() + a, v.cbegin() + b); ret = (std::size_t)(it - v.begin()); have_ret = 1; }
#elif VF_OP == OP_resize
      v.resize(CNT_A);
#elif VF_OP == OP_resize_v
      v.resize(CNT_A, argref);
#elif VF_OP == OP_assign_n
      v.assign(CNT_A, argref);
#elif VF_OP == OP_assign_range
      v.assign((const T *)src, (const T *)src + b);
#elif VF_OP == OP_assign_il
      if (b == 0) v.assign(std::initializer_list<T>{});
      else if (b == 1) v.assign({src[0]});
      else if (b == 2) v.assign({src[0], src[1]});
      else v.assign({src[0], src[1], src[2]});
#elif VF_OP == OP_assign_op_il
      if (b == 0) v = std::initializer_list<T>{};
      else if (b == 1) v = {src[0]};
      else if (b == 2) v = {src[0], src[1]};
      else v = {src[0], src[1], src[2]};
#elif VF_OP == OP_clear
      v.clear();
#elif VF_OP == OP_reserve
      v.reserve(CNT_A);
#elif VF_OP == OP_shrink
      v.shrink_to_fit();
#elif VF_OP == OP_append_range
      v.append((const T *)src, (const T *)src + b);
#elif VF_OP == OP_append_il
      if (b == 0) v.append(std::initializer_list<T>{});
      else if (b == 1) v.append({src[0]});
      else if (b == 2) v.append({src[0], src[1]});
      else v.append({src[0], src[1], src[2]});
#elif VF_OP == OP_at
      { T& r = v.at((typename V::size_type)a); retval = E::val(r); have_retval = 1; ret = (std::size_t)(&r - v.data()); have_ret = 1; }
#elif VF_OP == OP_access
      if (size > 0) {
        vf_assert(&v.front() == v.data(), "C01: front() refers to element 0");
        vf_assert(&v.back() == v.data() + (size - 1), "C01: back() refers to the last element");
        const V& cv = v;
        vf_assert(&cv.front() == v.data() && &cv.back() == v.data() + (size - 1), "C01: const front()/back()");
        if (a < size) { vf_assert(&v[a] == v.data() + a && &cv[a] == v.data() + a, "C01: operator[] refers to element i");
                        vf_assert(&cv.at(a) == v.data() + a, "C01: const at() refers to element i"); }
      }
#endif
    } catch (vf_exc&) { threw = 1; }
    catch (std::length_error&) { threw = 2; }
    catch (std::out_of_range&) { threw = 3; }
    vf_fault_disarm();

    // ---- model update
#if VF_OP == OP_push_back_c || VF_OP == OP_push_back_m || VF_OP == OP_emplace_back
    m[size] = argval; msz = nsz;
#elif VF_OP == OP_insert_c || VF_OP == OP_insert_m || VF_OP == OP_emplace
    for (unsigned i = VF_MAXM - 1; i > 0; --i) if (i > a && i <= size) m[i] = m[i - 1];
    m[a < VF_MAXM ? a : 0] = argval; msz = nsz;
#elif VF_OP == OP_insert_n
    { uint32_t t[VF_MAXM]; for (unsigned i = 0; i < VF_MAXM; ++i) t[i] = i < a ? m[i] : (i < a + b ? argval : (i - b < VF_MAXM ? m[i - b] : 0));
      for (unsigned i = 0; i < VF_MAXM; ++i) m[i] = t[i]; msz = nsz; }
#elif VF_OP == OP_insert_range || VF_OP == OP_insert_il
    { uint32_t t[VF_MAXM]; for (unsigned i = 0; i < VF_MAXM; ++i) t[i] = i < a ? m[i] : (i < a + b ? ys[(i - a) < 3 ? (i - a) : 0] : (i - b < VF_MAXM ? m[i - b] : 0));
      for (unsigned i = 0; i < VF_MAXM; ++i) m[i] = t[i]; msz = nsz; }
#elif VF_OP == OP_erase1
    for (unsigned i = 0; i + 1 < VF_MAXM; ++i) if (i >= a) m[i] = m[i + 1];
    msz = nsz;
#elif VF_OP == OP_erase_range
    { uint32_t t[VF_MAXM]; for (unsigned i = 0; i < VF_MAXM; ++i) t[i] = i < a ? m[i] : (i + (b - a) < VF_MAXM ? m[i + (b - a)] : 0);
      for (unsigned i = 0; i < VF_MAXM; ++i) m[i] = t[i]; msz = nsz; }
#elif VF_OP == OP_resize
    for (unsigned i = 0; i < VF_MAXM; ++i) if (i >= size && i < a) m[i] = E::value_initialized();
    msz = nsz;
#elif VF_OP == OP_resize_v
    for (unsigned i = 0; i < VF_MAXM; ++i) if (i >= size && i < a) m[i] = argval;
    msz = nsz;
#elif VF_OP == OP_assign_n
    for (unsigned i = 0; i < VF_MAXM; ++i) if (i < a) m[i] = argval;
    msz = nsz;
#elif VF_OP == OP_assign_range || VF_OP == OP_assign_il || VF_OP == OP_assign_op_il
    for (unsigned i = 0; i < 3; ++i) if (i < b) m[i] = ys[i];
    msz = nsz;
#elif VF_OP == OP_append_range || VF_OP == OP_append_il
    for (unsigned i = 0; i < 3; ++i) if (i < b && size + i < VF_MAXM) m[size + i] = ys[i];
    msz = nsz;
#else
    msz = nsz;
#endif

    const std::size_t cap1 = v.capacity();
    T *const data1 = v.data();

    if (threw == 0) {
      vf_witness("normal return");
      // ---- C01: same result as the sequence model (std::vector semantics)
#if VF_OP == OP_at
      vf_assert(a < size, "C01: at(pos) with pos >= size() must throw std::out_of_range");
#endif
      vf_assert(v.size() == msz, "C01: size() after the operation equals the model");
      for (unsigned i = 0; i < VF_MAXM; ++i) if (i < msz && i < v.size())
        vf_assert(E::val(v[i]) == m[i], "C01: element values in order equal the model");
      if (E::instrumented) for (unsigned i = 0; i < VF_MAXM; ++i) if (i < msz && i < v.size())
        vf_assert(E::state(&v[i]) == VF_LIVE, "C01: no stored element is left in a moved-from state");
#if VF_OP == OP_insert_c || VF_OP == OP_insert_m || VF_OP == OP_emplace || VF_OP == OP_insert_n || VF_OP == OP_insert_range || VF_OP == OP_insert_il || VF_OP == OP_erase1 || VF_OP == OP_erase_range
      vf_assert(have_ret && ret == a, "C01: returned iterator position");
#elif VF_OP == OP_emplace_back
      vf_assert(have_ret && ret == size && have_retval && retval == argval, "C01: emplace_back returns a reference to the new last element");
#elif VF_OP == OP_at
      vf_assert(have_ret && ret == a && have_retval && retval == m[a < VF_MAXM ? a : 0], "C01: at() returns a reference to element pos");
#endif
      // ---- C10 / C04: no reallocation while capacity suffices; prefix untouched
      if (VF_OP != OP_shrink && ((VF_OP == OP_reserve) ? (a <= cap0) : (nsz <= cap0))) {
        vf_assert(cap1 == cap0, "C10: capacity() unchanged when the result fits the old capacity");
        vf_assert(cap1 == kexp, "C08: capacity() equals the run-time result (no growth needed)");
        vf_assert(data1 == data0, "C10: data() unchanged when the result fits the old capacity");
        if (!VF_CE) vf_assert(vf_nalloc() == nalloc0, "C04: no allocate() when the result fits the existing capacity");
        if (E::instrumented) for (unsigned i = 0; i < VF_CAP; ++i) if (i < fm && i < size)
          vf_assert(E::touch(data1 + i) == touch0[i], "C10: elements before the first modified position are not touched");
#if VF_OP == OP_reserve
        vf_assert(vf_tr_events() == ev0, "C10: reserve(n <= capacity()) is a no-op");
#endif
      } else if (VF_OP != OP_shrink) {
        vf_witness("reallocating path");
        // ---- C14: geometric growth
        vf_assert(cap1 == kexp, "C08: growth capacity equals the run-time growth rule applied to the same state and request");
        vf_assert(cap1 >= required, "C14: new capacity() is at least the required size");
        vf_assert(cap1 >= cap0 + cap0 / 2 || cap1 == v.max_size(), "C14: new capacity() is at least 1.5x the old capacity (or max_size())");
        if (!VF_CE) vf_assert(vf_nalloc() == nalloc0 + 1, "C10: a growing call that knows its count reallocates at most once");
        if (E::instrumented) {
          // each old element relocated at most once: one construction from it, one destruction of it
          if (!VF_CE) vf_assert(vf_ndealloc() == ndealloc0 + (cap0 > VF_N ? 1u : 0u), "C04: the old block is released exactly once on reallocation");
        }
      }
#if VF_OP == OP_reserve && !defined(VF_BIGCNT)
      vf_assert(cap1 >= a, "C10: reserve(n) makes capacity() >= n");
#endif
#if VF_OP == OP_pop_back || VF_OP == OP_erase1 || VF_OP == OP_erase_range || VF_OP == OP_clear
      vf_assert(cap1 == cap0 && data1 == data0, "C10: pop_back/erase/clear never change capacity() or data()");
#endif
#if VF_OP == OP_shrink
      vf_assert(cap1 == (size > VF_N ? size : VF_N), "C02: after shrink_to_fit capacity() == max(size(), inline_capacity())");
      vf_assert(cap1 == (size > VF_N ? size : VF_N), "C08: shrink_to_fit gives the same capacity() as at run time");
#endif
    } else if (threw == 1) {
      vf_witness("exceptional exit (injected fault)");
      vf_assert(vf_faults_fired() >= 1, "rt: vf_exc without an injected fault");
      // ---- C05: strong guarantee
      if (strong) {
        vf_assert(v.size() == size, "C05: size() unchanged after a failed growing call");
        for (unsigned i = 0; i < VF_CAP; ++i) if (i < size && i < v.size()) {
          vf_assert(E::val(v[i]) == vals[i], "C05: element values unchanged after a failed growing call");
          if (E::instrumented) vf_assert(E::state(&v[i]) == VF_LIVE, "C05: no element left moved-from after a failed growing call");
        }
        if (strong_capdata) vf_assert(cap1 == cap0 && data1 == data0, "C05: capacity() and data() unchanged after a failed growing call");
        vf_assert(vf_live_blocks() == blocks0, "C05: no block leaked or lost by a failed growing call");
      }
    } else if (threw == 2) {
      vf_witness("length_error exit");
      vf_assert(required > v.max_size(), "C12: std::length_error although the request does not exceed max_size()");
      vf_assert(v.size() == size && cap1 == cap0 && data1 == data0, "C12: container unchanged after std::length_error");
    } else {
      vf_witness("out_of_range exit");
#if VF_OP == OP_at
      vf_assert(a >= size, "C01: at(pos) with pos < size() must not throw");
      vf_assert(v.size() == size && cap1 == cap0 && data1 == data0, "C01: container unchanged after at() throws");
#else
      vf_assert(0, "C01: unexpected std::out_of_range");
#endif
    }
    if (threw == 0 && required > v.max_size()) vf_assert(0, "C12: request beyond max_size() did not throw std::length_error");

    // ---- C02 / C03 / C04 / C06 on every exit
    S::check_inv(v, 1, AID);
    if (!VF_CE) {
      // initialisers of const variables are first tried as constant expressions (C++20): on a named local object this must still give the run-time answer
      const bool inl_const_init = v.inlined(); const bool inlinable_const_init = v.inlinable();
      vf_assert(inl_const_init == (cap1 == VF_N) && inlinable_const_init == (v.size() <= VF_N), "C02: inlined()/inlinable() give the run-time answer also when they initialise a const variable");
    }
    if (E::instrumented) {
#if VF_OP == OP_push_back_m || VF_OP == OP_insert_m
      // arg may have been moved from: still one object
#endif
      vf_assert(vf_tr_live() == live_before_all + (int32_t)v.size() + harness_objs,
                "C03: live element objects == size() (temporaries of the operation are gone)");
    }
    if (VF_CE) vf_assert(vf_live_blocks() == 1u, "C08: under constant evaluation the only live allocation after an operation is the container's buffer (temporaries released)");
    else vf_assert(vf_live_blocks() == (cap1 > VF_N ? 1u : 0u), "C04: live blocks are exactly the buffers of the non-inlined containers");

#if VF_FMASK != 0
    if (threw) {
      // ---- C06: still usable
      v.clear();
      v.push_back(vf_mk<T>::of(1));
      vf_assert(v.size() == 1 && E::val(v[0]) == 1, "C06: container usable after an exception (clear, push_back)");
      S::check_inv(v, 1, AID);
    }
#endif
  }
  // ---- after destruction
  if (E::instrumented) {
    vf_assert(vf_tr_live() == live_before_all, "C03: every element constructed was destroyed exactly once by the time the container is destroyed");
  }
  vf_assert(vf_live_blocks() == 0, "C04: every allocated block was released by the time the container is destroyed");
  vf_assert(vf_nalloc() == vf_ndealloc(), "C04: allocate/deallocate calls are paired");
  if (VF_CE) vf_assert(vf_live_blocks() == 0 && vf_nalloc() == vf_ndealloc(), "C08: no unreleased allocation at the end of the evaluation");
}

#if defined(VF_STDALLOC) && defined(VF_NATIVE_BUILD)
// native build of the real C++: route std::allocator's operator new / delete through the ledger (the translator does the same for the cbmc build)
void *operator new(std::size_t bytes) { return vf_native_new(bytes, sizeof(T)); }
void operator delete(void *p) noexcept { vf_native_delete(p); }
void operator delete(void *p, std::size_t) noexcept { vf_native_delete(p); }
#endif
