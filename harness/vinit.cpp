// C13 (i): the fill / zero / bulk-copy shortcuts change no result for trivial element types whose value representation is
// not "all-zero bytes == T()": pointers to data members (null is -1 in the Itanium ABI), aggregates that hold one, and a
// control type (long long). Every value-initialised element must compare equal to T(), every filled element to the fill
// value, and elements that were already there must be preserved - exactly what the generic (non-trivial) path gives.
//   VF_VT  0: int S::*   1: aggregate { int S::*, long long }   2: long long (control)
//   VF_N   inline capacity;  VF_STDALLOC 1: std::allocator (no construct member: the header may take the shortcuts), 0: vf_alloc
#include "vf.hpp"
#ifndef VF_VT
#define VF_VT 0
#endif
#ifndef VF_N
#define VF_N 2
#endif
struct S { int a; int b; int c; };
using PM = int S::*;
struct Ag { PM p; long long x; };
static_assert(sizeof(PM) == 8 && sizeof(Ag) == 16, "layout assumed by the job's element types");

#if VF_VT == 0
using T = PM;
static T mk_t(uint32_t k) { return (k % 4 == 0) ? T() : (k % 4 == 1) ? &S::a : (k % 4 == 2) ? &S::b : &S::c; }
static bool same(const T& l, const T& r) { return l == r; }
#elif VF_VT == 1
using T = Ag;
static T mk_t(uint32_t k) { T t; t.p = (k % 4 == 0) ? PM() : (k % 4 == 1) ? &S::a : (k % 4 == 2) ? &S::b : &S::c; t.x = (long long)(int)k; return t; }
static bool same(const T& l, const T& r) { return l.p == r.p && l.x == r.x; }
#else
using T = long long;
static T mk_t(uint32_t k) { return (long long)(int)k; }
static bool same(const T& l, const T& r) { return l == r; }
#endif
static_assert(std::is_trivially_copyable<T>::value && std::is_trivially_default_constructible<T>::value, "trivial element type");

#ifdef VF_STDALLOC
using A = std::allocator<T>;
#else
using A = vf_alloc<T, 0>;
#endif
using V = gch::small_vector<T, VF_N, A>;
#define MAXK 2
#ifndef VF_PART
#define VF_PART 0
#endif

extern "C" void vf_main(void) {
  const uint32_t cnt = vf_in_u32(), k0 = vf_in_u32(), k1 = vf_in_u32(), k2 = vf_in_u32(), kv = vf_in_u32(), pre_in = vf_in_u32(), n = vf_in_u32();
#ifdef VF_PRE
  const uint32_t pre = VF_PRE; (void)pre_in;   // pinned number of elements present before resize / emplace_back
#else
  const uint32_t pre = pre_in;
#endif
  vf_assume(cnt <= 3 && pre <= MAXK && n <= 3);
  const T zero = T();          // the language's value-initialisation, computed by the compiler
  const T fillv = mk_t(kv);
  const uint32_t ks[MAXK] = {k0, k1}; (void)k2;
  {
#if VF_PART == 0 || VF_PART == 1
    // 1. count constructor: every element is value-initialised
    { V v((typename V::size_type)cnt, vf_amk<A>::of(7));
      vf_witness("normal return");
      vf_assert(v.size() == cnt, "C13: count construction creates count elements");
      for (unsigned i = 0; i < 3; ++i) if (i < cnt) vf_assert(same(v[i], zero), "C13: count-constructed element of a trivial type equals T()"); }
#endif
#if VF_PART == 0 || VF_PART == 2
    vf_witness("normal return");
    // 2. count/value constructor and assign(count, value): every element equals the value
    { V v((typename V::size_type)cnt, fillv, vf_amk<A>::of(7));
      for (unsigned i = 0; i < 3; ++i) if (i < cnt) vf_assert(same(v[i], fillv), "C13: count/value-constructed element of a trivial type equals the value");
      v.assign((typename V::size_type)pre, zero);
      vf_assert(v.size() == pre, "C13: assign(count, value) sets the size");
      for (unsigned i = 0; i < MAXK; ++i) if (i < pre) vf_assert(same(v[i], zero), "C13: assign(count, T()) stores T()"); }
#endif
#if VF_PART == 0 || VF_PART == 3
    // 3. resize(n) / resize(n, value) from `pre` arbitrary elements: old ones preserved, new ones T() / value (inline growth and reallocation)
    { V v{vf_amk<A>::of(7)};
      for (unsigned i = 0; i < MAXK; ++i) if (i < pre) v.push_back(mk_t(ks[i]));
      v.resize((typename V::size_type)n);
      vf_witness("normal return");
      vf_assert(v.size() == n, "C13: resize(n) sets the size");
      for (unsigned i = 0; i < 3; ++i) if (i < n) {
        if (i < pre) vf_assert(same(v[i], mk_t(ks[i < MAXK ? i : 0])), "C13: resize(n) keeps the existing elements of a trivial type");
        else vf_assert(same(v[i], zero), "C13: resize(n) appends elements equal to T() for a trivial type"); }
 }
#endif
#if VF_PART == 0 || VF_PART == 4
    vf_witness("normal return");
    { V v{vf_amk<A>::of(7)};
      for (unsigned i = 0; i < MAXK; ++i) if (i < pre) v.push_back(mk_t(ks[i]));
      v.resize((typename V::size_type)n, fillv);
      for (unsigned i = 0; i < 3; ++i) if (i < n) {
        if (i < pre) vf_assert(same(v[i], mk_t(ks[i < MAXK ? i : 0])), "C13: resize(n, value) keeps the existing elements of a trivial type");
        else vf_assert(same(v[i], fillv), "C13: resize(n, value) appends copies of the value for a trivial type"); } }
#endif
#if VF_PART == 0 || VF_PART == 5
    vf_witness("normal return");
    { V v{vf_amk<A>::of(7)};
      for (unsigned i = 0; i < MAXK; ++i) if (i < pre) v.push_back(mk_t(ks[i]));
      v.emplace_back();
      vf_assert(v.size() == pre + 1 && same(v[pre], zero), "C13: emplace_back() stores T() for a trivial type");
      for (unsigned i = 0; i < MAXK; ++i) if (i < pre) vf_assert(same(v[i], mk_t(ks[i])), "C13: emplace_back() keeps the existing elements of a trivial type"); }
#endif
  }
  vf_assert(vf_live_blocks() == 0, "C04: every allocated block was released by the time the containers are destroyed");
}

#if defined(VF_STDALLOC) && defined(VF_NATIVE_BUILD)
// native build of the real C++: route std::allocator's operator new / delete through the ledger (the translator does the same for the cbmc build)
void *operator new(std::size_t bytes) { return vf_native_new(bytes, sizeof(T)); }
void operator delete(void *p) noexcept { vf_native_delete(p); }
void operator delete(void *p, std::size_t) noexcept { vf_native_delete(p); }
#endif
