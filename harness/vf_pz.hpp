// Element type whose move operations change their source (like std::string / unique_ptr do): a moved-from Pz reads back
// as a different value. A container operation that copies from an element it has already moved from (C11: aliasing
// arguments, C01: result contents) therefore produces a visibly wrong value. Plain C++ (no run-time hooks): non-trivial
// copy / move / destructor, so the header takes its generic (non-memcpy) paths.
#pragma once
#define VF_PZ_POISON 0x40000000
struct Pz { int val; int pad0; int pad1; int pad2;
  Pz() noexcept : val(0), pad0(0), pad1(0), pad2(0) {}
  explicit Pz(int v) noexcept : val(v), pad0(0), pad1(0), pad2(0) {}
  Pz(const Pz& o) noexcept : val(o.val), pad0(0), pad1(0), pad2(0) {}
  Pz(Pz&& o) noexcept : val(o.val), pad0(0), pad1(0), pad2(0) { o.val ^= VF_PZ_POISON; }
  Pz& operator=(const Pz& o) noexcept { val = o.val; return *this; }
  Pz& operator=(Pz&& o) noexcept { if (this != &o) { val = o.val; o.val ^= VF_PZ_POISON; } return *this; }
  ~Pz() noexcept { pad0 = 1; }
  friend bool operator==(const Pz& a, const Pz& b) noexcept { return a.val == b.val; }
  friend bool operator!=(const Pz& a, const Pz& b) noexcept { return a.val != b.val; }
  friend bool operator<(const Pz& a, const Pz& b) noexcept { return a.val < b.val; } };
template <> struct vf_elem<Pz> : vf_elem_triv<Pz> {
  static void make(void *p, uint32_t v) noexcept { ::new (p) Pz((int)v); }
  static uint32_t val(const Pz& e) noexcept { return (uint32_t)e.val; } };
template <> struct vf_mk<Pz, false> { static Pz of(uint32_t v) { return Pz((int)v); } };
