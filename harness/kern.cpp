// Size-arithmetic kernels at full width (no element loops): max_size(), capacity growth, the
// length_error guards.  Decides (tagged): C12 (a), C14 (a).
//   VF_SIZET: allocator size_type (uint8_t, uint16_t, uint32_t, size_t);  VF_ESZ: sizeof element (1,4,8)
#include "vf.hpp"
#ifndef VF_SIZET
#define VF_SIZET std::size_t
#endif
#ifndef VF_KN
#define VF_KN 0
#endif
#ifndef VF_ESZ
#define VF_ESZ 1
#endif
struct Blob { unsigned char b[VF_ESZ]; };
using T = Blob;
using SZ = VF_SIZET;
using A = vf_alloc<T, VF_A_MAXSZ, SZ>;
using V = gch::small_vector<T, VF_KN, A>;

extern "C" void vf_main(void) {
  const uint64_t lo = vf_in_u32(), hi = vf_in_u32();
  const uint64_t amax = (SZ)(lo | (hi << 32));                       // what the allocator reports as max_size()
  const uint64_t capw = (uint64_t)vf_in_u32() | ((uint64_t)vf_in_u32() << 32);
  const uint64_t reqw = (uint64_t)vf_in_u32() | ((uint64_t)vf_in_u32() << 32);
  const uint64_t sizew = (uint64_t)vf_in_u32() | ((uint64_t)vf_in_u32() << 32);
  const uint64_t cntw = (uint64_t)vf_in_u32() | ((uint64_t)vf_in_u32() << 32);
  vf_max_size_value = amax;
  V vv{A(7)};
  typename V::base& v = (typename V::base&)vv;
  typename V::size_ty const mx = v.get_max_size();
  const uint64_t diffmax = (uint64_t)(std::numeric_limits<typename V::difference_type>::max)();
  // ---- C12: max_size() == min(allocator max, difference_type max), representable in size_type
  vf_assert((uint64_t)mx == (amax < diffmax ? amax : diffmax), "C12: max_size() is min(allocator max_size, difference_type max)");
  vf_assert((uint64_t)vv.max_size() == (uint64_t)mx, "C12: max_size() survives the conversion to size_type");
  vf_assert((uint64_t)mx <= (uint64_t)(std::numeric_limits<SZ>::max)(), "C12: max_size() fits size_type");

  // arbitrary valid (size, capacity) words: N <= cap <= max(max_size, N), size <= cap
  const uint64_t capmax = (uint64_t)mx > VF_KN ? (uint64_t)mx : VF_KN;
  vf_assume(capw >= VF_KN && capw <= capmax && sizew <= capw);
  T *const keep = v.data_ptr();
  v.set_data(keep, (typename V::size_ty)capw, (typename V::size_ty)sizew);
  vf_assert((uint64_t)vv.capacity() == capw && (uint64_t)vv.size() == sizew, "C12: size and capacity survive storage in size_type");

  // ---- C14 / C12: growth kernel, for every cap < required <= max_size
  vf_assume(reqw <= (uint64_t)(std::numeric_limits<typename V::size_ty>::max)());
  const typename V::size_ty req = (typename V::size_ty)reqw;
  if (capw < reqw && reqw <= (uint64_t)mx) {
    vf_witness("growth kernel reached");
    const uint64_t r = (uint64_t)v.unchecked_calculate_new_capacity(req);
    vf_assert(r >= reqw, "C14: new capacity is at least the required size");
    vf_assert(r <= (uint64_t)mx, "C12: new capacity never exceeds max_size()");
    const uint64_t want = capw + capw / 2;   // no wrap: capw <= mx <= 2^63-1
    vf_assert(r >= (want < (uint64_t)mx ? want : (uint64_t)mx), "C14: new capacity is at least 1.5x the old capacity, saturating at max_size()");
    vf_assert((uint64_t)(SZ)r == r, "C12: new capacity is representable in size_type (no truncation when stored)");
  }
  {
    int threw = 0; uint64_t r = 0;
    try { r = (uint64_t)v.checked_calculate_new_capacity(req); } catch (std::length_error&) { threw = 1; }
    if (reqw > (uint64_t)mx) { vf_witness("length_error reached"); vf_assert(threw == 1, "C12: a required capacity beyond max_size() throws std::length_error"); }
    else if (capw < reqw) vf_assert(threw == 0 && r >= reqw && r <= (uint64_t)mx, "C12: a required capacity within max_size() does not throw and stays within max_size()");
  }
  // ---- C12: the guard used before growing by `count`: max_size() - size() < count  <=>  size()+count > max_size(), without wrap
  {
    vf_assume(cntw <= (uint64_t)(std::numeric_limits<typename V::size_ty>::max)());
    const typename V::size_ty cnt = (typename V::size_ty)cntw;
    // size <= cap <= max(mx, N); when size > mx (only possible inline with N > mx) any growth must be rejected
    if (sizew <= (uint64_t)mx) {
      const bool guard = (typename V::size_ty)(v.get_max_size() - v.get_size()) < cnt;
      const bool truth = cntw > (uint64_t)mx - sizew;
      vf_assert(guard == truth, "C12: the growth guard max_size()-size() < count is exact (no wrap in the internal size type)");
      if (!guard) vf_assert((uint64_t)(typename V::size_ty)(v.get_size() + cnt) == sizew + cntw, "C12: size()+count does not wrap in the internal size type once the guard passed");
    }
  }
  v.set_data(keep, (typename V::size_ty)VF_KN, 0);   // back to the inline empty state before destruction
}
