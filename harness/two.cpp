// Two-container operations: copy/move construction, copy/move assignment, swap, assign(sv), append(sv),
// across inline capacities (NA = destination, NB = source) and allocator configurations.
// Decides (tagged): C01 C02 C03 C04 C05 C06 C07 C09 C10 C18(a).
#include "vf_pre.hpp"
#include "vf.hpp"

#ifndef VF_ELEM
#define VF_ELEM int
#endif
#ifndef VF_NA
#define VF_NA 2
#endif
#ifndef VF_NB
#define VF_NB VF_NA
#endif
#ifndef VF_CAPA
#define VF_CAPA VF_NA
#endif
#ifndef VF_CAPB
#define VF_CAPB VF_NB
#endif
#ifndef VF_AFL
#define VF_AFL 0
#endif
#ifndef VF_IDEQ
#define VF_IDEQ 1
#endif
#ifndef VF_FMASK
#define VF_FMASK 0
#endif
#ifndef VF_NFAULTS
#define VF_NFAULTS 1
#endif
#ifndef VF_FOLLOWUP
#define VF_FOLLOWUP 1
#endif

#define OP_copy_ctor        1
#define OP_move_ctor        2
#define OP_copy_ctor_alloc  3
#define OP_move_ctor_alloc  4
#define OP_copy_assign      5
#define OP_move_assign      6
#define OP_swap             7
#define OP_assign_copy      8
#define OP_assign_move      9
#define OP_append_copy      10
#define OP_append_move      11
#define OP_nm_swap          12
#ifndef VF_OP
#define VF_OP OP_move_assign
#endif

#if VF_OP == OP_copy_ctor || VF_OP == OP_move_ctor || VF_OP == OP_copy_ctor_alloc || VF_OP == OP_move_ctor_alloc
#define IS_CTOR 1
#else
#define IS_CTOR 0
#endif
#if VF_OP == OP_move_ctor || VF_OP == OP_move_ctor_alloc || VF_OP == OP_move_assign || VF_OP == OP_assign_move
#define IS_MOVE 1
#else
#define IS_MOVE 0
#endif

using T = VF_ELEM;
#ifdef VF_STDALLOC
using A = std::allocator<T>;   // the header special-cases std::allocator (always interchangeable, no alloc construct)
#else
using A = vf_alloc<T, VF_AFL>;
#endif
using VA = gch::small_vector<T, VF_NA, A>;
using VB = gch::small_vector<T, VF_NB, A>;
using SA = vf_sv<VA>;
using SB = vf_sv<VB>;
using E = vf_elem<T>;

#ifdef VF_STDALLOC
#define IDA 0
#define IDB 0
#define IDX 0
#else
#define IDA 7
#define IDB (VF_IDEQ ? 7 : 9)
#define IDX 11
#endif
#define MAXM (VF_CAPA + VF_CAPB + 1)

#ifdef VF_STDALLOC
static const bool POCCA = false, POCMA = true, POCS = false, IAE = true, SOCC = false;   // std::allocator: stateless, always equal, interchangeable
#else
static const bool POCCA = (VF_AFL & VF_A_POCCA) != 0, POCMA = (VF_AFL & VF_A_POCMA) != 0, POCS = (VF_AFL & VF_A_POCS) != 0,
                  IAE = (VF_AFL & VF_A_IAE) != 0, SOCC = (VF_AFL & VF_A_SOCC) != 0;
#endif

extern "C" void vf_main(void) {
  uint32_t valsa[VF_CAPA + 1], valsb[VF_CAPB + 1];
  for (unsigned i = 0; i < VF_CAPA; ++i) valsa[i] = vf_norm<T>(vf_in_u32());
  for (unsigned i = 0; i < VF_CAPB; ++i) valsb[i] = vf_norm<T>(vf_in_u32());
#if IS_CTOR
  const uint32_t sizea = 0; (void)vf_in_u32();
#elif defined(VF_SIZEA)
  const uint32_t sizea = VF_SIZEA; (void)vf_in_u32();
#else
  const uint32_t sizea = vf_in_u32();
#endif
#ifdef VF_SIZEB
  const uint32_t sizeb = VF_SIZEB; (void)vf_in_u32();
#else
  const uint32_t sizeb = vf_in_u32();
#endif
  vf_assume(sizea <= VF_CAPA); vf_assume(sizeb <= VF_CAPB);
  const uint32_t fat1 = vf_in_u32(), fat2 = vf_in_u32();
  const int32_t live0 = vf_tr_live();
  {
    VB vb{vf_amk<A>::of(IDB)};
    SB::install(vb, VF_CAPB, sizeb, valsb);
    T *const datab0 = vb.data(); const std::size_t capb0 = vb.capacity();
    uint32_t touchb0[VF_CAPB + 1];
    for (unsigned i = 0; i < VF_CAPB; ++i) touchb0[i] = i < sizeb ? E::touch(datab0 + i) : 0;

    int threw = 0;
    // expected allocator ids after a successful operation
    uint32_t exp_ida = IDA, exp_idb = IDB;
#if VF_OP == OP_copy_ctor
    exp_ida = SOCC ? IDB + 100 : IDB;
#elif VF_OP == OP_move_ctor
    exp_ida = IDB;
#elif VF_OP == OP_copy_ctor_alloc || VF_OP == OP_move_ctor_alloc
    exp_ida = IDX;
#elif VF_OP == OP_copy_assign || VF_OP == OP_assign_copy
    exp_ida = POCCA ? IDB : IDA;
#elif VF_OP == OP_move_assign || VF_OP == OP_assign_move
    exp_ida = POCMA ? IDB : IDA;
#elif VF_OP == OP_swap || VF_OP == OP_nm_swap
    exp_ida = POCS ? IDB : IDA; exp_idb = POCS ? IDA : IDB;
#endif

#if IS_CTOR
    // ---------------- constructors: destination is created by the operation
    alignas(VA) unsigned char bufa[sizeof(VA)] = {};
    VA *pa = nullptr;
    const uint32_t nalloc0 = vf_nalloc(); const uint32_t ev0 = vf_tr_events();
    vf_fault_arm(VF_FMASK, fat1, VF_NFAULTS >= 2 ? fat2 : 0);
    try {
#if VF_OP == OP_copy_ctor
      pa = new (bufa) VA(vb);
#elif VF_OP == OP_move_ctor
      pa = new (bufa) VA(std::move(vb));
#elif VF_OP == OP_copy_ctor_alloc
      pa = new (bufa) VA(vb, vf_amk<A>::of(IDX));
#elif VF_OP == OP_move_ctor_alloc
      pa = new (bufa) VA(std::move(vb), vf_amk<A>::of(IDX));
#endif
    } catch (vf_exc&) { threw = 1; } catch (std::length_error&) { threw = 2; }
    vf_fault_disarm();
    if (!threw) {
      vf_witness("normal return");
      VA& va = *pa;
      vf_assert(va.size() == sizeb, "C01: constructed container has the source's size");
      for (unsigned i = 0; i < VF_CAPB; ++i) if (i < sizeb && i < va.size()) {
        vf_assert(E::val(va[i]) == valsb[i], "C01: constructed container has the source's elements in order");
        if (E::instrumented) vf_assert(E::state(&va[i]) == VF_LIVE, "C01: no stored element is left in a moved-from state");
      }
#if !IS_MOVE
      vf_assert(vb.size() == sizeb && vb.data() == datab0 && vb.capacity() == capb0, "C01: copy construction leaves the source unchanged");
      for (unsigned i = 0; i < VF_CAPB; ++i) if (i < sizeb && i < vb.size()) vf_assert(E::val(vb[i]) == valsb[i], "C01: copy construction leaves the source's elements unchanged");
#else
      {
        // C09: steal whenever permitted
#if VF_OP == OP_move_ctor
        const bool interchangeable = true;                 // the allocator itself is moved along
#else
        const bool interchangeable = IAE || IDX == IDB;
#endif
        const bool can_steal = capb0 > VF_NB && capb0 > VF_NA && interchangeable;
        if (can_steal) {
          vf_witness("steal path");
          vf_assert(va.data() == datab0, "C09: move construction takes over the source's heap buffer (data() is the source's old data())");
          vf_assert(va.capacity() == capb0, "C09: a stolen buffer keeps its capacity");
          vf_assert(vf_tr_events() == ev0, "C09: no element is constructed, assigned or destroyed when a buffer is stolen");
          vf_assert(vb.empty() && vb.inlined(), "C09: a stolen-from source is empty and inlined");
          vf_assert(vf_nalloc() == nalloc0, "C09: stealing performs no allocation");
        } else {
          vf_witness("element-wise path");
          vf_assert(va.data() != datab0 || capb0 == VF_NB, "C09: element-wise move must not alias the source's buffer");
        }
      }
#endif
      SA::check_inv(va, 1, exp_ida);
      SB::check_inv(vb, 1, IDB);
      if (E::instrumented) vf_assert(vf_tr_live() == live0 + (int32_t)va.size() + (int32_t)vb.size(), "C03: live element objects == sum of size()");
      vf_assert(vf_live_blocks() == (va.capacity() > VF_NA ? 1u : 0u) + (vb.capacity() > VF_NB ? 1u : 0u), "C04: live blocks are exactly the buffers of the non-inlined containers");
      // C07: later storage traffic uses the container's current allocator
#if VF_FOLLOWUP
      { const uint32_t n0 = vf_nalloc(); va.reserve(va.capacity() + 1);
        vf_assert(vf_nalloc() == n0 + 1 && vf_last_alloc_id() == SA::id_of(va), "C07: storage traffic after the operation uses the container's current allocator");
        SA::check_inv(va, 1, exp_ida); }
#endif
      va.~VA();
    } else {
      vf_witness("exceptional exit");
      vf_assert(threw == 1 && vf_faults_fired() >= 1, "rt: exception without an injected fault");
      SB::check_inv(vb, 1, IDB);
      if (E::instrumented) vf_assert(vf_tr_live() == live0 + (int32_t)vb.size(), "C06: a constructor that throws leaves no element object behind");
      vf_assert(vf_live_blocks() == (vb.capacity() > VF_NB ? 1u : 0u), "C06: a constructor that throws leaves no block behind");
#if !IS_MOVE
      vf_assert(vb.size() == sizeb && vb.data() == datab0, "C06: failed copy construction leaves the source unchanged");
#endif
    }
#else
    // ---------------- assignment / swap / append: destination pre-exists
    VA va{vf_amk<A>::of(IDA)};
    SA::install(va, VF_CAPA, sizea, valsa);
    T *const dataa0 = va.data(); const std::size_t capa0 = va.capacity();
    uint32_t toucha0[VF_CAPA + 1];
    for (unsigned i = 0; i < VF_CAPA; ++i) toucha0[i] = i < sizea ? E::touch(dataa0 + i) : 0;
    const uint32_t nalloc0 = vf_nalloc(); const uint32_t ev0 = vf_tr_events(); const uint32_t dtor0 = vf_tr_count(1);
    const uint32_t blocks0 = vf_live_blocks();
    (void)toucha0; (void)blocks0;
    vf_fault_arm(VF_FMASK, fat1, VF_NFAULTS >= 2 ? fat2 : 0);
    try {
#if VF_OP == OP_copy_assign
      va = vb;
#elif VF_OP == OP_move_assign
      va = std::move(vb);
#elif VF_OP == OP_swap
      va.swap(vb);
#elif VF_OP == OP_nm_swap
      swap(va, vb);
#elif VF_OP == OP_assign_copy
      va.assign(vb);
#elif VF_OP == OP_assign_move
      va.assign(std::move(vb));
#elif VF_OP == OP_append_copy
      va.append(vb);
#elif VF_OP == OP_append_move
      va.append(std::move(vb));
#endif
    } catch (vf_exc&) { threw = 1; } catch (std::length_error&) { threw = 2; }
    vf_fault_disarm();
    if (!threw) {
      vf_witness("normal return");
#if VF_OP == OP_copy_assign || VF_OP == OP_assign_copy || VF_OP == OP_move_assign || VF_OP == OP_assign_move
      vf_assert(va.size() == sizeb, "C01: assignment gives the destination the source's size");
      for (unsigned i = 0; i < VF_CAPB; ++i) if (i < sizeb && i < va.size()) {
        vf_assert(E::val(va[i]) == valsb[i], "C01: assignment gives the destination the source's elements in order");
        if (E::instrumented) vf_assert(E::state(&va[i]) == VF_LIVE, "C01: no stored element is left in a moved-from state");
      }
#endif
#if VF_OP == OP_copy_assign || VF_OP == OP_assign_copy
      vf_assert(vb.size() == sizeb && vb.data() == datab0 && vb.capacity() == capb0, "C01: copy assignment leaves the source unchanged");
      for (unsigned i = 0; i < VF_CAPB; ++i) if (i < sizeb && i < vb.size()) vf_assert(E::val(vb[i]) == valsb[i], "C01: copy assignment leaves the source's elements unchanged");
      if (sizeb <= capa0 && !(POCCA && !IAE && IDA != IDB)) {
        vf_assert(va.capacity() == capa0 && va.data() == dataa0, "C10: same-allocator copy assignment that fits keeps capacity() and data()");
        vf_assert(vf_nalloc() == nalloc0, "C04: no allocate() when the assigned contents fit the existing capacity");
      }
#endif
#if VF_OP == OP_move_assign || VF_OP == OP_assign_move
      {
        const bool interchangeable = POCMA || IAE || IDA == IDB;
        const bool can_steal = capb0 > VF_NB && capb0 > VF_NA && interchangeable;
        if (can_steal) {
          vf_witness("steal path");
          vf_assert(va.data() == datab0, "C09: move assignment takes over the source's heap buffer (data() is the source's old data())");
          vf_assert(va.capacity() == capb0, "C09: a stolen buffer keeps its capacity");
          for (unsigned i = 0; i < VF_CAPB; ++i) if (i < sizeb) vf_assert(E::touch(datab0 + i) == touchb0[i], "C09: no element of the transferred buffer is constructed, assigned or destroyed");
          vf_assert(vf_tr_events() - ev0 == vf_tr_count(1) - dtor0 && vf_tr_count(1) - dtor0 == (E::instrumented ? sizea : 0u), "C09: a steal only destroys the destination's previous elements");
          vf_assert(vb.empty() && vb.inlined(), "C09: a stolen-from source is empty and inlined");
          vf_assert(vf_nalloc() == nalloc0, "C09: stealing performs no allocation");
        } else {
          vf_witness("element-wise path");
          // (a propagating unequal allocator must replace the destination's allocator: its buffer cannot be kept - the exception the property lists)
          if (sizeb <= capa0 && !(POCMA && !IAE && IDA != IDB)) vf_assert(vf_nalloc() == nalloc0, "C04: no allocate() when the moved contents fit the existing capacity");
        }
      }
#endif
#if VF_OP == OP_swap || VF_OP == OP_nm_swap
      vf_assert(va.size() == sizeb && vb.size() == sizea, "C01: swap exchanges the sizes");
      for (unsigned i = 0; i < VF_CAPB; ++i) if (i < sizeb && i < va.size()) vf_assert(E::val(va[i]) == valsb[i], "C01: swap exchanges the elements (first operand)");
      for (unsigned i = 0; i < VF_CAPA; ++i) if (i < sizea && i < vb.size()) vf_assert(E::val(vb[i]) == valsa[i], "C01: swap exchanges the elements (second operand)");
      if (E::instrumented) {
        for (unsigned i = 0; i < VF_CAPB; ++i) if (i < sizeb && i < va.size()) vf_assert(E::state(&va[i]) == VF_LIVE, "C01: no stored element is left in a moved-from state");
        for (unsigned i = 0; i < VF_CAPA; ++i) if (i < sizea && i < vb.size()) vf_assert(E::state(&vb[i]) == VF_LIVE, "C01: no stored element is left in a moved-from state");
      }
      {
        const bool interchangeable = POCS || IAE || IDA == IDB;
        if (interchangeable && capb0 > VF_NB) {
          vf_witness("steal path");
          vf_assert(va.data() == datab0 && va.capacity() == capb0, "C09: swap transfers a heap buffer to the other container");
          for (unsigned i = 0; i < VF_CAPB; ++i) if (i < sizeb) vf_assert(E::touch(datab0 + i) == touchb0[i], "C09: no element of the transferred buffer is constructed, assigned or destroyed");
        }
        if (interchangeable && capa0 > VF_NA) {
          vf_assert(vb.data() == dataa0 && vb.capacity() == capa0, "C09: swap transfers a heap buffer to the other container");
          for (unsigned i = 0; i < VF_CAPA; ++i) if (i < sizea) vf_assert(E::touch(dataa0 + i) == toucha0[i], "C09: no element of the transferred buffer is constructed, assigned or destroyed");
        }
        if (interchangeable) vf_assert(vf_nalloc() == nalloc0, "C04: swap of interchangeable containers performs no allocation");
      }
#endif
#if VF_OP == OP_append_copy || VF_OP == OP_append_move
      vf_assert(va.size() == sizea + sizeb, "C01: append adds the source's size");
      for (unsigned i = 0; i < VF_CAPA; ++i) if (i < sizea && i < va.size()) vf_assert(E::val(va[i]) == valsa[i], "C01: append keeps the existing elements");
      for (unsigned i = 0; i < VF_CAPB; ++i) if (i < sizeb && sizea + i < va.size()) vf_assert(E::val(va[sizea + i]) == valsb[i], "C01: append adds the source's elements in order");
      if (E::instrumented) for (unsigned i = 0; i < MAXM; ++i) if (i < va.size()) vf_assert(E::state(&va[i]) == VF_LIVE, "C01: no stored element is left in a moved-from state");
      if (sizea + sizeb <= capa0) {
        vf_assert(va.capacity() == capa0 && va.data() == dataa0 && vf_nalloc() == nalloc0, "C10: append that fits keeps capacity() and data()");
        if (E::instrumented) for (unsigned i = 0; i < VF_CAPA; ++i) if (i < sizea) vf_assert(E::touch(dataa0 + i) == toucha0[i], "C10: elements before the first modified position are not touched");
      } else {
        vf_assert(va.capacity() >= sizea + sizeb && (va.capacity() >= capa0 + capa0 / 2 || va.capacity() == va.max_size()), "C14: new capacity() is at least the required size and 1.5x the old capacity");
        vf_assert(vf_nalloc() == nalloc0 + 1, "C10: a growing call that knows its count reallocates at most once");
      }
#if VF_OP == OP_append_copy
      vf_assert(vb.size() == sizeb && vb.data() == datab0, "C01: append(const&) leaves the source unchanged");
#else
      vf_assert(vb.size() == 0 && vb.data() == datab0 && vb.capacity() == capb0, "C01: append(&&) leaves its source cleared, with its buffer");
#endif
#endif
      SA::check_inv(va, 1, exp_ida);
      SB::check_inv(vb, 1, exp_idb);
    } else {
      vf_witness("exceptional exit");
      vf_assert(threw == 1 && vf_faults_fired() >= 1, "rt: exception without an injected fault");
#if VF_OP == OP_append_copy || VF_OP == OP_append_move
      // C05: strong guarantee for append, source unchanged too
      vf_assert(va.size() == sizea, "C05: size() unchanged after a failed growing call");
      for (unsigned i = 0; i < VF_CAPA; ++i) if (i < sizea && i < va.size()) {
        vf_assert(E::val(va[i]) == valsa[i], "C05: element values unchanged after a failed growing call");
        if (E::instrumented) vf_assert(E::state(&va[i]) == VF_LIVE, "C05: no element left moved-from after a failed growing call");
      }
      vf_assert(vf_live_blocks() == blocks0, "C05: no block leaked or lost by a failed growing call");
      vf_assert(vb.size() == sizeb && vb.data() == datab0, "C05: a failed append leaves its source unchanged");
      for (unsigned i = 0; i < VF_CAPB; ++i) if (i < sizeb && i < vb.size()) {
        vf_assert(E::val(vb[i]) == valsb[i], "C05: a failed append leaves its source's elements unchanged");
        if (E::instrumented) vf_assert(E::state(&vb[i]) == VF_LIVE, "C05: a failed append(&&) leaves none of its source's elements moved-from");
      }
#endif
      // C06: both containers valid; allocators: either untouched or as after success (propagation happens first or last)
      SA::check_inv(va, 0, 0);
      SB::check_inv(vb, 0, 0);
    }
    if (E::instrumented) vf_assert(vf_tr_live() == live0 + (int32_t)va.size() + (int32_t)vb.size(), "C03: live element objects == sum of size()");
    vf_assert(vf_live_blocks() == (va.capacity() > VF_NA ? 1u : 0u) + (vb.capacity() > VF_NB ? 1u : 0u), "C04: live blocks are exactly the buffers of the non-inlined containers");
    // moved-from / swapped / failed containers are reusable, and use their current allocator (C07, C09, C06)
    {
      const uint32_t ida_now = SA::id_of(va), idb_now = SB::id_of(vb);
#if VF_FOLLOWUP
      uint32_t n0 = vf_nalloc();
      va.reserve(va.capacity() + 1);
      vf_assert(vf_nalloc() == n0 + 1 && vf_last_alloc_id() == ida_now, "C07: storage traffic after the operation uses the container's current allocator");
      n0 = vf_nalloc();
      vb.reserve(vb.capacity() + 1);
      vf_assert(vf_nalloc() == n0 + 1 && vf_last_alloc_id() == idb_now, "C07: storage traffic after the operation uses the container's current allocator");
      SA::check_inv(va, 1, ida_now);
#endif
      vb.clear(); vb.push_back(vf_mk<T>::of(5));
      vf_assert(vb.size() == 1 && E::val(vb[0]) == 5, "C09: a moved-from container is valid and reusable");
      SB::check_inv(vb, 1, idb_now);
    }
#endif
  }
  if (E::instrumented) vf_assert(vf_tr_live() == live0, "C03: every element constructed was destroyed exactly once by the time the containers are destroyed");
  vf_assert(vf_live_blocks() == 0, "C04: every allocated block was released by the time the containers are destroyed");
  vf_assert(vf_nalloc() == vf_ndealloc(), "C04: allocate/deallocate calls are paired");
  if (VF_CE) vf_assert(vf_live_blocks() == 0 && vf_nalloc() == vf_ndealloc(), "C08: no unreleased allocation at the end of the evaluation");
}

#if defined(VF_STDALLOC) && defined(VF_NATIVE_BUILD)
// native build of the real C++: route std::allocator's operator new / delete through the ledger (the translator does the same for the cbmc build)
void *operator new(std::size_t bytes) { return vf_native_new(bytes, sizeof(T)); }
void operator delete(void *p) noexcept { vf_native_delete(p); }
void operator delete(void *p, std::size_t) noexcept { vf_native_delete(p); }
#endif
