// Range / count / generator / initializer-list constructors and range operations with instrumented iterators.
// Decides (tagged): C15 C01 C02 C03 C04 C06 C12 C18(a).
//   VF_OP   ctor_range | assign_range | insert_range | append_range | ctor_count | ctor_count_val | ctor_gen | ctor_il
//   VF_ITK  0 input (single pass, strict)   1 forward   2 random access   3 raw pointer (contiguous)
#include "vf_pre.hpp"
#include "vf.hpp"

#ifndef VF_ELEM
#define VF_ELEM int
#endif
#ifndef VF_N
#define VF_N 2
#endif
#ifndef VF_CAP
#define VF_CAP VF_N
#endif
#ifndef VF_AFL
#define VF_AFL 0
#endif
#ifndef VF_FMASK
#define VF_FMASK 0
#endif
#ifndef VF_NFAULTS
#define VF_NFAULTS 1
#endif
#ifndef VF_ITK
#define VF_ITK 0
#endif
#ifndef VF_LEN
#define VF_LEN 3
#endif
#ifndef VF_SIZET
#define VF_SIZET std::size_t
#endif

#define OP_ctor_range     1
#define OP_assign_range   2
#define OP_insert_range   3
#define OP_append_range   4
#define OP_ctor_count     5
#define OP_ctor_count_val 6
#define OP_ctor_gen       7
#define OP_ctor_il        8
#ifndef VF_OP
#define VF_OP OP_insert_range
#endif
#if VF_OP == OP_ctor_range || VF_OP == OP_ctor_count || VF_OP == OP_ctor_count_val || VF_OP == OP_ctor_gen || VF_OP == OP_ctor_il
#define IS_CTOR 1
#else
#define IS_CTOR 0
#endif

using T = VF_ELEM;
using A = vf_alloc<T, VF_AFL, VF_SIZET>;
using V = gch::small_vector<T, VF_N, A>;
using S = vf_sv<V>;
using E = vf_elem<T>;
#define MAXM (VF_CAP + VF_LEN + 2)

#ifdef VF_SRCINT
using SRCT = int;    // the range yields ints: value_type is constructible from them (explicit constructor) but NOT assignable
#else
using SRCT = T;
#endif
// ---- instrumented iterator over a harness-owned array
template <typename Cat, bool STRICT>
struct vf_iter {
  using iterator_category = Cat;
  using value_type = SRCT;
  using difference_type = std::ptrdiff_t;
  using pointer = const SRCT *;
  using reference = const SRCT&;
  uint32_t pos; const SRCT *base;
  vf_iter() noexcept : pos(0), base(nullptr) {}
  vf_iter(uint32_t p, const SRCT *b) noexcept : pos(p), base(b) {}
  reference operator*() const { if (vf_fault(VF_K_DEREF)) throw vf_exc{3}; uint32_t p = vf_stream_deref(pos, STRICT); return base[p <= VF_LEN ? p : VF_LEN]; }
  pointer operator->() const { return &**this; }
  vf_iter& operator++() { if (vf_fault(VF_K_INC)) throw vf_exc{3}; pos = vf_stream_inc(pos, STRICT); return *this; }
  struct proxy { const SRCT *p; reference operator*() const { return *p; } };
  // post-increment of a single-pass iterator: the value is read now (counts as this position's dereference)
  proxy operator++(int) { proxy r{&**this}; ++*this; return r; }
  friend bool operator==(const vf_iter& a, const vf_iter& b) { if (vf_fault(VF_K_CMP)) throw vf_exc{3}; vf_stream_cmp(a.pos, STRICT); vf_stream_cmp(b.pos, STRICT); return a.pos == b.pos; }
  friend bool operator!=(const vf_iter& a, const vf_iter& b) { return !(a == b); }
  // random access part (only instantiated for the random-access category)
  vf_iter& operator--() { --pos; return *this; }
  vf_iter operator--(int) { vf_iter t = *this; --pos; return t; }
  vf_iter& operator+=(difference_type n) { pos = (uint32_t)((difference_type)pos + n); return *this; }
  vf_iter& operator-=(difference_type n) { pos = (uint32_t)((difference_type)pos - n); return *this; }
  friend vf_iter operator+(vf_iter a, difference_type n) { a += n; return a; }
  friend vf_iter operator+(difference_type n, vf_iter a) { a += n; return a; }
  friend vf_iter operator-(vf_iter a, difference_type n) { a -= n; return a; }
  friend difference_type operator-(const vf_iter& a, const vf_iter& b) { return (difference_type)a.pos - (difference_type)b.pos; }
  reference operator[](difference_type n) const { return *(*this + n); }
  friend bool operator<(const vf_iter& a, const vf_iter& b) { return a.pos < b.pos; }
  friend bool operator>(const vf_iter& a, const vf_iter& b) { return a.pos > b.pos; }
  friend bool operator<=(const vf_iter& a, const vf_iter& b) { return a.pos <= b.pos; }
  friend bool operator>=(const vf_iter& a, const vf_iter& b) { return a.pos >= b.pos; }
};
#if VF_ITK == 0
using It = vf_iter<std::input_iterator_tag, true>;
#elif VF_ITK == 1
using It = vf_iter<std::forward_iterator_tag, false>;
#elif VF_ITK == 2
using It = vf_iter<std::random_access_iterator_tag, false>;
#endif

struct vf_gen {
  uint32_t *calls; const uint32_t *vals;
  T operator()() { if (vf_fault(VF_K_GEN)) throw vf_exc{4}; uint32_t k = (*calls)++; return vf_mk<T>::of(vals[k < VF_LEN ? k : 0] ); }
};

extern "C" void vf_main(void) {
  uint32_t vals[VF_CAP + 1];
  for (unsigned i = 0; i < VF_CAP; ++i) vals[i] = vf_norm<T>(vf_in_u32());
#if IS_CTOR
  const uint32_t size = 0; (void)vf_in_u32();
#elif defined(VF_SIZEFIX)
  const uint32_t size = VF_SIZEFIX; (void)vf_in_u32();
#else
  const uint32_t size = vf_in_u32();
#endif
  vf_assume(size <= VF_CAP);
  const uint32_t a = vf_in_u32();           // insert position
#ifdef VF_LENFIX
  const uint32_t len = VF_LENFIX; (void)vf_in_u32();   // pinned: lets symex bound single-pass loops exactly
#else
  const uint32_t len = vf_in_u32();         // range length / count
#endif
#ifdef VF_BIGLEN
  // a range far longer than an 8-bit size type can count: length = 256*k + r with r <= VF_LEN (only random-access / counting ranges: no element is touched by a correct implementation)
  vf_assume(len >= 256 && len < 65536 && (len & 255u) <= VF_LEN);
#elif defined(VF_MIDLEN)
  // a counting range longer than max_size() allows from this state but still representable in an 8-bit size type (size()+length may wrap at 256)
#if VF_OP == OP_insert_range || VF_OP == OP_append_range
  vf_assume(len <= 255 && (uint64_t)len + size > (uint64_t)V(A(7)).max_size());
#else
  vf_assume(len <= 255 && (uint64_t)len > (uint64_t)V(A(7)).max_size());
#endif
#else
  vf_assume(len <= VF_LEN);
#endif
  uint32_t ys[VF_LEN + 1]; for (unsigned i = 0; i < VF_LEN; ++i) ys[i] = vf_norm<T>(vf_in_u32());
  const uint32_t x = vf_norm<T>(vf_in_u32());
  const uint32_t fat1 = vf_in_u32(), fat2 = vf_in_u32();
#ifdef VF_MAXSZ
  vf_max_size_value = VF_MAXSZ;
#endif
  const int32_t live0 = vf_tr_live();
  {
    // harness-owned source elements (always VF_LEN of them; the range uses the first len)
    alignas(T) unsigned char srcbuf[sizeof(T) * (VF_LEN + 1)] = {};
    T *src = reinterpret_cast<T *>(srcbuf);
    for (unsigned i = 0; i < VF_LEN; ++i) E::make(src + i, ys[i]);
    T arg = vf_mk<T>::of(x); (void)arg;
#ifdef VF_SRCINT
    int isrc[VF_LEN + 1]; for (unsigned i = 0; i < VF_LEN; ++i) isrc[i] = (int)ys[i];
    isrc[VF_LEN] = 0;
#define SRCARR isrc
#else
#define SRCARR src
#endif
    const int32_t harness_objs = E::instrumented ? VF_LEN + 1 : 0;
    vf_stream_init(len);
    uint32_t gen_calls = 0; (void)gen_calls;

    // model
    uint32_t m[MAXM]; uint32_t msz = size;
    for (unsigned i = 0; i < MAXM; ++i) m[i] = i < size ? vals[i] : 0;
    uint32_t nsz = size;
#if VF_OP == OP_insert_range
    vf_assume(a <= size); nsz = size + len;
    { uint32_t t[MAXM]; for (unsigned i = 0; i < MAXM; ++i) t[i] = i < a ? m[i] : (i < a + len ? ys[(i - a) < VF_LEN ? (i - a) : 0] : (i - len < MAXM ? m[i - len] : 0));
      for (unsigned i = 0; i < MAXM; ++i) m[i] = t[i]; }
#elif VF_OP == OP_append_range
    nsz = size + len; for (unsigned i = 0; i < VF_LEN; ++i) if (i < len && size + i < MAXM) m[size + i] = ys[i];
#elif VF_OP == OP_assign_range || VF_OP == OP_ctor_range || VF_OP == OP_ctor_gen || VF_OP == OP_ctor_il
    nsz = len; for (unsigned i = 0; i < VF_LEN; ++i) if (i < len) m[i] = ys[i];
#elif VF_OP == OP_ctor_count
    nsz = len; for (unsigned i = 0; i < VF_LEN; ++i) if (i < len) m[i] = E::value_initialized();
#elif VF_OP == OP_ctor_count_val
    nsz = len; for (unsigned i = 0; i < VF_LEN; ++i) if (i < len) m[i] = x;
#endif
    msz = nsz; (void)a;

    alignas(V) unsigned char vbuf[sizeof(V)] = {};
    V *pv = nullptr;
#if !IS_CTOR
    pv = new (vbuf) V(A(7));
    S::install(*pv, VF_CAP, size, vals);
#endif
    const std::size_t cap0 = IS_CTOR ? VF_N : pv->capacity();
    const uint32_t nalloc0 = vf_nalloc();
    T *const data0 = IS_CTOR ? nullptr : pv->data();
    int threw = 0; std::size_t ret = 0;
    vf_fault_arm(VF_FMASK, fat1, VF_NFAULTS >= 2 ? fat2 : 0);
    try {
#if VF_ITK == 3
      const SRCT *first = SRCARR, *last = SRCARR + len;
#else
      It first(0, SRCARR), last(len, SRCARR);
#endif
      (void)first; (void)last;
#if VF_OP == OP_ctor_range
      pv = new (vbuf) V(first, last, A(7));
#elif VF_OP == OP_assign_range
      pv->assign(first, last);
#elif VF_OP == OP_insert_range
      { auto it = pv->insert(pv->cbegin() + a, first, last); ret = (std::size_t)(it - pv->begin()); }
#elif VF_OP == OP_append_range
      pv->append(first, last);
#elif VF_OP == OP_ctor_count
      pv = new (vbuf) V((typename V::size_type)len, A(7));
#elif VF_OP == OP_ctor_count_val
      pv = new (vbuf) V((typename V::size_type)len, arg, A(7));
#elif VF_OP == OP_ctor_gen
      pv = new (vbuf) V((typename V::size_type)len, vf_gen{&gen_calls, ys}, A(7));
#elif VF_OP == OP_ctor_il
      if (len == 0) pv = new (vbuf) V(std::initializer_list<T>{}, A(7));
      else if (len == 1) pv = new (vbuf) V({src[0]}, A(7));
      else if (len == 2) pv = new (vbuf) V({src[0], src[1]}, A(7));
      else pv = new (vbuf) V({src[0], src[1], src[2]}, A(7));
#endif
    } catch (vf_exc&) { threw = 1; } catch (std::length_error&) { threw = 2; }
    vf_fault_disarm();

    if (threw == 0) {
      vf_witness("normal return");
      V& v = *pv;
      vf_assert(nsz <= v.max_size(), "C12: request beyond max_size() did not throw std::length_error");
      vf_assert(v.size() == msz, "C01: size() after the operation equals the model");
      for (unsigned i = 0; i < MAXM; ++i) if (i < msz && i < v.size()) {
        vf_assert(E::val(v[i]) == m[i], "C01: element values in order equal the model");
        if (E::instrumented) vf_assert(E::state(&v[i]) == VF_LIVE, "C01: no stored element is left in a moved-from state");
      }
#if VF_OP == OP_insert_range
      vf_assert(ret == a, "C01: returned iterator position");
#endif
#if VF_ITK == 0 && (VF_OP == OP_ctor_range || VF_OP == OP_assign_range || VF_OP == OP_insert_range || VF_OP == OP_append_range)
      // ---- C15: single pass: every position dereferenced exactly once and incremented exactly once
      for (unsigned i = 0; i < VF_LEN; ++i) if (i < len) {
        vf_assert(vf_stream_derefs(i) == 1, "C15: each position of a single-pass range is dereferenced exactly once");
        vf_assert(vf_stream_incs(i) == 1, "C15: each position of a single-pass range is incremented exactly once");
      }
      vf_assert(vf_stream_cursor() == len, "C15: a single-pass range is consumed to its end, in order");
#endif
#if VF_OP == OP_ctor_gen
      vf_assert(gen_calls == len, "C15: the generator is invoked exactly count times, in index order");
#endif
#if !IS_CTOR
      if (nsz <= cap0) {
        vf_assert(v.capacity() == cap0 && v.data() == data0, "C10: capacity() and data() unchanged when the result fits the old capacity");
#if !(VF_ITK == 0 && VF_OP == OP_insert_range)
        vf_assert(vf_nalloc() == nalloc0, "C04: no allocate() when the result fits the existing capacity");
#endif
      } else {
        vf_assert(v.capacity() >= nsz, "C14: new capacity() is at least the required size");
#if VF_ITK != 0
        vf_assert(v.capacity() >= cap0 + cap0 / 2 || v.capacity() == v.max_size(), "C14: new capacity() is at least 1.5x the old capacity (or max_size())");
        vf_assert(vf_nalloc() == nalloc0 + 1, "C10: a growing call that knows its count reallocates at most once");
#endif
      }
#else
      vf_assert(v.capacity() >= nsz && v.capacity() >= VF_N, "C02: constructed capacity() holds the elements");
      if (nsz <= VF_N) vf_assert(vf_nalloc() == nalloc0 && v.inlined(), "C04: a container whose elements fit the inline buffer never touches the allocator");
#endif
    } else if (threw == 1) {
      vf_witness("exceptional exit");
      vf_assert(vf_faults_fired() >= 1, "rt: exception without an injected fault");
#if VF_OP == OP_append_range
      if (pv) { V& v = *pv;
        vf_assert(v.size() == size, "C05: size() unchanged after a failed growing call");
        for (unsigned i = 0; i < VF_CAP; ++i) if (i < size && i < v.size()) { vf_assert(E::val(v[i]) == vals[i], "C05: element values unchanged after a failed growing call");
          if (E::instrumented) vf_assert(E::state(&v[i]) == VF_LIVE, "C05: no element left moved-from after a failed growing call"); } }
#endif
    } else {
      vf_witness("length_error exit");
      vf_assert(nsz > (IS_CTOR ? V(A(7)).max_size() : pv->max_size()), "C12: std::length_error although the request does not exceed max_size()");
#if !IS_CTOR
      vf_assert(pv->size() == size && pv->capacity() == cap0 && pv->data() == data0, "C12: container unchanged after std::length_error");
#endif
    }
    if (pv && (threw == 0 || !IS_CTOR)) {
      V& v = *pv;
      S::check_inv(v, 1, 7);
      if (E::instrumented) vf_assert(vf_tr_live() == live0 + (int32_t)v.size() + harness_objs, "C03: live element objects == size() (temporaries of the operation are gone)");
      vf_assert(vf_live_blocks() == (v.capacity() > VF_N ? 1u : 0u), "C04: live blocks are exactly the buffers of the non-inlined containers");
#if VF_FMASK != 0
      if (threw) { v.clear(); v.push_back(vf_mk<T>::of(1)); vf_assert(v.size() == 1 && E::val(v[0]) == 1, "C06: container usable after an exception (clear, push_back)"); S::check_inv(v, 1, 7); }
#endif
      v.~V();
    } else {
      // a constructor that threw: nothing may be left behind
      if (E::instrumented) vf_assert(vf_tr_live() == live0 + harness_objs, "C06: a constructor that throws leaves no element object behind");
      vf_assert(vf_live_blocks() == 0, "C06: a constructor that throws leaves no block behind");
    }
    if (E::instrumented) for (unsigned i = 0; i < VF_LEN; ++i) src[i].~T();
  }
  if (E::instrumented) vf_assert(vf_tr_live() == live0, "C03: every element constructed was destroyed exactly once by the time the container is destroyed");
  vf_assert(vf_live_blocks() == 0, "C04: every allocated block was released by the time the container is destroyed");
  vf_assert(vf_nalloc() == vf_ndealloc(), "C04: allocate/deallocate calls are paired");
}
