// Defaults of the configuration macros that vf.hpp itself needs (set by run.py with -D; these are only fall-backs).
#pragma once
#ifndef VF_N
#define VF_N 2
#endif
#ifndef VF_NA
#define VF_NA VF_N
#endif
#ifndef VF_NB
#define VF_NB VF_NA
#endif
// smallest legitimate heap request: one more than the (smaller) inline capacity
#ifndef VF_MINHEAP
#define VF_MINHEAP ((VF_NA < VF_NB ? VF_NA : VF_NB) + 1)
#endif
