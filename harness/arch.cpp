// C13 (iii): the bulk-copy / fill shortcuts add no requirement: a trivially copyable element type that is NOT
// assignable must be accepted by every operation that only needs construction, exactly like its non-trivial twin.
// A configuration that does not compile is reported as a violation (front-end decided); the values are checked by the solver.
#include "vf.hpp"
#ifndef VF_TRIV
#define VF_TRIV 1
#endif
#ifndef VF_N
#define VF_N 2
#endif
#if VF_TRIV
struct El { int x; El() = default; explicit El(int v) : x(v) {} El(const El&) = default; El& operator=(const El&) = delete; };
static_assert(std::is_trivially_copyable<El>::value && !std::is_copy_assignable<El>::value, "archetype: trivially copyable, not assignable");
#else
struct El { int x; El() : x(0) {} explicit El(int v) : x(v) {} El(const El& o) : x(o.x) {} El& operator=(const El&) = delete; ~El() {} };
#endif
using A = vf_alloc<El, 0>;
using V = gch::small_vector<El, VF_N, A>;

extern "C" void vf_main(void) {
  const uint32_t x = vf_in_u32(), cnt = vf_in_u32();
  vf_assume(cnt <= 3);
  {
    V v((typename V::size_type)cnt, A(7));                       // DefaultInsertable only
    vf_witness("normal return");
    vf_assert(v.size() == cnt, "C13: count construction of a non-assignable element type");
    for (unsigned i = 0; i < 3; ++i) if (i < cnt) vf_assert(v[i].x == 0, "C13: count construction value-initialises non-assignable elements");
    v.emplace_back((int)x);                                      // EmplaceConstructible + MoveInsertable
    v.emplace_back();
    vf_assert(v.size() == cnt + 2 && v[cnt].x == (int)x && v[cnt + 1].x == 0, "C13: emplace_back on a non-assignable element type");
    El e((int)x); v.push_back(e);                                // CopyInsertable
    v.reserve(v.capacity() + 1);                                 // MoveInsertable
    vf_assert(v.size() == cnt + 3 && v[cnt + 2].x == (int)x && v[0].x == (cnt ? 0 : (int)x), "C13: push_back / reserve on a non-assignable element type");
    V w(v);                                                      // CopyInsertable
    vf_assert(w.size() == v.size() && w[cnt].x == (int)x, "C13: copy construction of a non-assignable element type");
    V u(std::move(w));                                           // MoveInsertable
    vf_assert(u.size() == v.size() && u[cnt].x == (int)x, "C13: move construction of a non-assignable element type");
    v.shrink_to_fit();                                           // MoveInsertable
    v.pop_back(); v.clear();                                     // Erasable
    vf_assert(v.empty(), "C13: pop_back / clear on a non-assignable element type");
    V c3((typename V::size_type)cnt, e, A(7));                   // CopyInsertable
    for (unsigned i = 0; i < 3; ++i) if (i < cnt) vf_assert(c3[i].x == (int)x, "C13: count/value construction of a non-assignable element type");
  }
  vf_assert(vf_live_blocks() == 0, "C04: every allocated block was released by the time the containers are destroyed");
}
