// Comparisons and non-member functions.  Decides (tagged): C16.
//   VF_NA / VF_NB inline capacities; VF_CAPA / VF_CAPB pre-state capacities; VF_ELEM element type
//   VF_PART 0: relational operators (+ <=> at C++20)   1: erase / erase_if   2: non-member swap/begin/end/size/...
#include "vf.hpp"
#ifndef VF_ELEM
#define VF_ELEM int
#endif
#ifndef VF_NA
#define VF_NA 2
#endif
#ifndef VF_NB
#define VF_NB VF_NA
#endif
#ifndef VF_CAPA
#define VF_CAPA 4
#endif
#ifndef VF_CAPB
#define VF_CAPB 4
#endif
#ifndef VF_PART
#define VF_PART 0
#endif

using T = VF_ELEM;
using A = vf_alloc<T, 0>;
using VA = gch::small_vector<T, VF_NA, A>;
using VB = gch::small_vector<T, VF_NB, A>;
using E = vf_elem<T>;

struct is_x { uint32_t x; bool operator()(const T& e) const { return E::val(e) == x; } };

extern "C" void vf_main(void) {
  uint32_t va_[VF_CAPA + 1], vb_[VF_CAPB + 1];
  for (unsigned i = 0; i < VF_CAPA; ++i) va_[i] = vf_norm<T>(vf_in_u32());
  for (unsigned i = 0; i < VF_CAPB; ++i) vb_[i] = vf_norm<T>(vf_in_u32());
  const uint32_t la = vf_in_u32(), lb = vf_in_u32(), x = vf_norm<T>(vf_in_u32());
  vf_assume(la <= VF_CAPA && lb <= VF_CAPB);
  {
    VA a{A(7)}; VB b{A(7)};
    vf_sv<VA>::install(a, VF_CAPA, la, va_);
    vf_sv<VB>::install(b, VF_CAPB, lb, vb_);
#if VF_PART == 0
    // reference: lexicographic comparison on the value sequences (signed int order, as the element's operator<)
    int ref = 0;
    for (unsigned i = 0; i < (VF_CAPA < VF_CAPB ? VF_CAPA : VF_CAPB); ++i) if (ref == 0 && i < la && i < lb) {
      if (vf_order_key<T>(va_[i]) < vf_order_key<T>(vb_[i])) ref = -1; else if (vf_order_key<T>(vb_[i]) < vf_order_key<T>(va_[i])) ref = 1;   // std::vector's operator< uses only the element's operator<
    }
    if (ref == 0) ref = la < lb ? -1 : (la > lb ? 1 : 0);
    bool eq = la == lb;
    for (unsigned i = 0; i < VF_CAPA; ++i) if (i < la && i < lb && va_[i] != vb_[i]) eq = false;
    vf_witness("normal return");
    vf_assert((a == b) == eq, "C16: operator== equals element-wise equality of equal-length sequences");
    vf_assert((a != b) == !eq, "C16: operator!= is the negation of operator==");
    vf_assert((a < b) == (ref < 0), "C16: operator< is lexicographic");
    vf_assert((a <= b) == (ref <= 0), "C16: operator<= is lexicographic");
    vf_assert((a > b) == (ref > 0), "C16: operator> is lexicographic");
    vf_assert((a >= b) == (ref >= 0), "C16: operator>= is lexicographic");
    vf_assert((b < a) == (ref > 0) && (b == a) == eq, "C16: comparisons are consistent when the operands are exchanged");
#if __cplusplus >= 202002L && defined(__cpp_impl_three_way_comparison)
    { auto c = a <=> b; const int ci = c < 0 ? -1 : (c > 0 ? 1 : 0);
      vf_assert(ci == ref, "C16: operator<=> is the lexicographic three-way comparison"); }
#endif
#elif VF_PART == 1 || VF_PART == 3
    // erase(v, x) / erase_if(v, pred)
#if VF_PART == 1
    uint32_t m[VF_CAPA + 1]; uint32_t k = 0;
    for (unsigned i = 0; i < VF_CAPA; ++i) if (i < la && va_[i] != x) m[k++] = va_[i];
    const std::size_t r1 = gch::erase(a, vf_mk<T>::of(x));
    vf_witness("normal return");
    vf_assert(r1 == la - k, "C16: erase(v, x) returns the number of removed elements");
    vf_assert(a.size() == k, "C16: erase(v, x) removes exactly the matching elements");
    for (unsigned i = 0; i < VF_CAPA; ++i) if (i < k && i < a.size()) vf_assert(E::val(a[i]) == m[i], "C16: erase(v, x) keeps the other elements in order");
    vf_sv<VA>::check_inv(a, 1, 7);
#else
    vf_witness("normal return");
    uint32_t mb[VF_CAPB + 1]; uint32_t kb = 0;
    for (unsigned i = 0; i < VF_CAPB; ++i) if (i < lb && vb_[i] != x) mb[kb++] = vb_[i];
    const std::size_t r2 = gch::erase_if(b, is_x{x});
    vf_assert(r2 == lb - kb && b.size() == kb, "C16: erase_if(v, pred) removes exactly the matching elements and returns their count");
    for (unsigned i = 0; i < VF_CAPB; ++i) if (i < kb && i < b.size()) vf_assert(E::val(b[i]) == mb[i], "C16: erase_if(v, pred) keeps the other elements in order");
    vf_sv<VB>::check_inv(b, 1, 7);
#endif
#else
    vf_witness("normal return");
    const VA& ca = a;
    vf_assert(gch::begin(a) == a.begin() && gch::end(a) == a.end() && gch::begin(ca) == ca.begin() && gch::end(ca) == ca.end(), "C16: non-member begin/end agree with the members");
    vf_assert(gch::cbegin(a) == a.cbegin() && gch::cend(a) == a.cend(), "C16: non-member cbegin/cend agree with the members");
    vf_assert(gch::rbegin(a) == a.rbegin() && gch::rend(a) == a.rend() && gch::crbegin(a) == a.crbegin() && gch::crend(a) == a.crend(), "C16: non-member reverse begin/end agree with the members");
    vf_assert(gch::size(a) == a.size() && (std::size_t)gch::ssize(a) == a.size() && gch::ssize(a) >= 0, "C16: non-member size/ssize agree with size()");
    vf_assert(gch::empty(a) == a.empty() && gch::data(a) == a.data() && gch::data(ca) == ca.data(), "C16: non-member empty/data agree with the members");
#if VF_NA == VF_NB
    gch::swap(a, b);
    vf_assert(a.size() == lb && b.size() == la, "C16: non-member swap exchanges the sizes");
    for (unsigned i = 0; i < VF_CAPB; ++i) if (i < lb && i < a.size()) vf_assert(E::val(a[i]) == vb_[i], "C16: non-member swap exchanges the elements");
    for (unsigned i = 0; i < VF_CAPA; ++i) if (i < la && i < b.size()) vf_assert(E::val(b[i]) == va_[i], "C16: non-member swap exchanges the elements");
#endif
#endif
  }
  vf_assert(vf_live_blocks() == 0, "C04: every allocated block was released by the time the containers are destroyed");
}
