"""Property registry: which bounded symbolic checks decide which property."""
from . import jobs as J
from .jobs import ops_job, cells, OPS_ALL, OPS_GROW, OPS_STRONG, OPS_ALIAS, elem_supports

COMMON_ASSUMPTIONS = [
    'bounded: every claim is for the stated inline capacities, capacities, counts and fault numbers only (see coverage.bounds); --unwinding-assertions is on, a too-small unwind bound is an error, never a pass',
    'code verified is what clang++-14 -O1 emits for /repo/source/include/gch/small_vector.hpp as on disk (libstdc++ 12, x86-64); UB already exploited by the optimiser is invisible',
    'one-step induction: each run starts from an ARBITRARY state satisfying the representation invariant (built with the header\'s own allocate/set_data through clang -fno-access-control) and the invariant is re-asserted on every exit',
    'tools/ll2c.py (IR->C), its exception lowering (exact-type matching), typed-loop lowering of memcpy/memmove/memset and retyping of byte buffers are trusted; guarded by per-run differential execution of translated C vs real C++, layout static-asserts, reachability witnesses and native replay of every counterexample',
    'environment stubs (rt/vf_rt.c): allocator ledger with exact-size zero-filled typed blocks, fault injector whose throw point is a solver variable, element-event hooks, std::length_error/out_of_range constructors as no-ops; malloc never returns NULL (allocation failure exists only as a C++ exception from the harness allocator)',
    'cbmc 6.11 itself (its built-in memcpy model is never used: it produced a spurious counterexample in the design probes)',
]

class Spec:
    def __init__(self, pid, jobs, tags=None, memsafe=False, level='model_checking', explanation='', bounds=None, assumptions=None,
                 quick_validate=4, compile_failure_is_violation=False, custom=None):
        self.pid = pid; self.jobs = jobs; self.tags = tags or [pid]; self.memsafe = memsafe; self.level = level
        self.explanation = explanation; self._bounds = bounds; self.assumptions = assumptions or []
        self.quick_validate = quick_validate; self.compile_failure_is_violation = compile_failure_is_violation; self.custom = custom
    def bounds(self, tier):
        b = dict(BOUNDS[tier])
        if self._bounds: b.update(self._bounds(tier) if callable(self._bounds) else self._bounds)
        return b

BOUNDS = {
    'quick': {'inline_capacity_N': [0, 2], 'pre_state_capacity': 'N (inline) and N+2 (heap)', 'size': 'all sizes <= capacity (symbolic)', 'counts_and_range_lengths': '<= 2 (3 for initializer lists / pointer ranges)',
              'element_values': 'all 2^32', 'faults_per_operation': '<= 1', 'outside': 'larger capacities/counts, N > 2, fancy pointers'},
    'thorough': {'inline_capacity_N': [0, 1, 2, 3], 'pre_state_capacity': 'N (inline) and up to N+2 (heap)', 'size': 'all sizes <= capacity (symbolic)', 'counts_and_range_lengths': '<= 3',
                 'element_values': 'all 2^32', 'faults_per_operation': '<= 2', 'outside': 'larger capacities/counts, N > 3, fancy pointers'},
}

REG = {}
def get(pid):
    if pid not in REG: raise SystemExit('unknown or unclaimed property ' + pid)
    return REG[pid]

# ---------------------------------------------------------------- C01
def c01_jobs(tier):
    js = []
    if tier == 'quick':
        for op in OPS_ALL:
            for (n, cap) in cells(tier): js.append(ops_job(op, 'int', n, cap))
        for op in ['insert_n', 'insert_c', 'push_back_m', 'erase_range', 'resize_v', 'assign_n', 'emplace_back', 'insert_range']:
            for (n, cap) in [(2, 2), (2, 4)]: js.append(ops_job(op, 'Tr', n, cap))
    else:
        for op in OPS_ALL:
            for (n, cap) in cells(tier):
                js.append(ops_job(op, 'int', n, cap, maxcnt=3))
                js.append(ops_job(op, 'Tr', n, cap, maxcnt=3))
            for el in ['TrM', 'TrC', 'TrX']:
                if elem_supports(el, op):
                    for (n, cap) in [(2, 2), (2, 4)]: js.append(ops_job(op, el, n, cap))
    return [j for j in js if j is not None]

REG['C01'] = Spec('C01', c01_jobs, memsafe=True, explanation=
    'Per member operation one harness: arbitrary valid pre-state (inline or heap, any size <= capacity, any element values) -> the operation with symbolic '
    'arguments -> size(), every element, returned iterator position / reference / at() exception compared with a sequence model carrying std::vector\'s specified semantics. '
    'Because the post-state again satisfies the invariant the per-operation result extends to call histories by induction (up to the capacity bound).')
