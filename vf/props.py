"""Property registry: which bounded symbolic checks decide which property."""
from . import jobs as J
from .jobs import ops_job, cells, OPS_ALL, OPS_GROW, OPS_STRONG, OPS_ALIAS, elem_supports

COMMON_ASSUMPTIONS = [
    'bounded: every claim is for the stated inline capacities, capacities, counts and fault numbers only (see coverage.bounds); --unwinding-assertions is on, a too-small unwind bound is an error, never a pass',
    'code verified is what clang++-14 -O1 emits for /repo/source/include/gch/small_vector.hpp as on disk (libstdc++ 12, x86-64); UB already exploited by the optimiser is invisible',
    'one-step induction: each run starts from an ARBITRARY state satisfying the representation invariant (built with the header\'s own allocate/set_data through clang -fno-access-control) and the invariant is re-asserted on every exit',
    'tools/ll2c.py (IR->C), its exception lowering (exact-type matching), typed-loop lowering of memcpy/memmove/memset and retyping of byte buffers are trusted; guarded by per-run differential execution of translated C vs real C++, layout static-asserts, reachability witnesses and native replay of every counterexample',
    'environment stubs (rt/vf_rt.c): allocator ledger with exact-size zero-filled typed blocks, fault injector whose throw point is a solver variable, element-event hooks, std::length_error/out_of_range constructors as no-ops; malloc never returns NULL (allocation failure exists only as a C++ exception from the harness allocator)',
    'cbmc 6.11 itself (its built-in memcpy model is never used: it produced a spurious counterexample in the design probes)',
]

class Spec:
    def __init__(self, pid, jobs, tags=None, memsafe=False, level='model_checking', explanation='', bounds=None, assumptions=None,
                 quick_validate=6, compile_failure_is_violation=False, custom=None, engine='ll2c+cbmc', level_text=None, level_note=None, technique=None, also=None):
        self.pid = pid; self.jobs = jobs; self.tags = tags or [pid]; self.memsafe = memsafe; self.level = level
        self.explanation = explanation; self._bounds = bounds; self.assumptions = assumptions or []
        self.quick_validate = quick_validate; self.compile_failure_is_violation = compile_failure_is_violation; self.custom = custom
        self.also = tuple(also or ());   # assertions carrying another property's tag that this property's statement also demands
        self.engine = engine; self.level_text = level_text; self.level_note = level_note; self.technique = technique
    def bounds(self, tier):
        b = dict(BOUNDS[tier])
        if self._bounds: b.update(self._bounds(tier) if callable(self._bounds) else self._bounds)
        return b

BOUNDS = {
    'quick': {'inline_capacity_N': '0 and 2 for one-container operations; pairs (2,2) (0,0) (2,3) (3,2) (2,0) (0,2) for two-container operations',
              'pre_state_capacity': 'N (inline) and N+2 (heap); additionally heap capacity 6 (N=2) and 5 (N=0) for the shifting operations on int',
              'size': 'all sizes <= capacity (symbolic), except where a job name carries -sN / -saN / -sbN (pinned size: struct elements in the inline representation, single-pass ranges)',
              'counts_and_range_lengths': '<= 2 (<= 3 for initializer lists, pointer ranges and the capacity-5/6 cells); big-count jobs: every count in the size_type range beyond max_size()',
              'element_values': 'all 2^32', 'faults_per_operation': '<= 1 (2 for one insert job)', 'unwind': 'derived per job from the largest reachable capacity (+2); unwinding assertions on',
              'outside': 'larger capacities/counts, N > 3, more than two containers per step, fancy pointers, element types other than the listed flavours'},
    'thorough': {'inline_capacity_N': [0, 1, 2, 3], 'pre_state_capacity': 'N (inline) and up to N+4 (heap)', 'size': 'all sizes <= capacity (symbolic) except pinned jobs', 'counts_and_range_lengths': '<= 3',
                 'element_values': 'all 2^32', 'faults_per_operation': '<= 2', 'unwind': 'derived per job; unwinding assertions on', 'outside': 'larger capacities/counts, N > 3, more than two containers per step, fancy pointers'},
}

# ---------------------------------------------------------------- shared two-container / range job sets (cheap int jobs + a few instrumented ones)
def two_basic(tier, elem='int', fmask=0, afls=((0, 1), (0, 0)), ops=None, witness=None):
    from .jobs import two_job, OPS2_ALL
    js = []
    cs = [(2, 2, 2, 2), (2, 2, 2, 4), (2, 2, 4, 2), (2, 2, 4, 4), (0, 0, 2, 2), (2, 3, 2, 3), (2, 3, 2, 5), (3, 2, 3, 3), (3, 2, 3, 4), (2, 0, 2, 1), (0, 2, 1, 2)] if tier == 'quick' else \
         [(2, 2, 2, 2), (2, 2, 2, 4), (2, 2, 4, 2), (2, 2, 4, 4), (0, 0, 0, 2), (0, 0, 2, 2), (0, 0, 2, 0), (2, 3, 2, 3), (2, 3, 2, 5), (3, 2, 3, 2), (3, 2, 3, 3), (3, 2, 3, 4), (3, 2, 5, 4), (0, 2, 0, 2), (0, 2, 1, 2), (0, 2, 0, 4), (2, 0, 2, 0), (2, 0, 2, 1), (2, 0, 2, 3), (2, 0, 4, 1), (1, 3, 1, 2)]
    for op in (ops or OPS2_ALL):
        for (afl, ideq) in afls:
            for (na, nb, ca, cb) in cs:
                if elem.startswith('Tr') and ca == na and cb == nb and ca > 0 and cb > 0 and not (op.endswith('ctor') or op.endswith('ctor_alloc')):
                    # instrumented elements, both containers inline: element buffers alias the container objects; pin the sizes (measured: > 10 GB otherwise)
                    for (sa, sb) in sorted(set([(1, cb), (ca, 1), (ca, cb)])):
                        js.append(two_job(op, elem, na, nb, ca, cb, afl=afl, ideq=ideq, fmask=fmask, witness=witness, sizea=sa, sizeb=sb))
                else:
                    js.append(two_job(op, elem, na, nb, ca, cb, afl=afl, ideq=ideq, fmask=fmask, witness=witness))
    return [j for j in js if j is not None]

def rng_basic(tier, elem='int'):
    from .jobs import rng_job
    js = []
    for op in ['ctor_range', 'assign_range', 'insert_range', 'append_range']:
        for (n, cap) in [(2, 2), (2, 4), (0, 0)]:
            if op == 'ctor_range' and cap != n: continue
            for itk in (1, 3): js.append(rng_job(op, elem, n, cap, itk=itk))
            if elem == 'int' or op == 'ctor_range': js.append(rng_job(op, elem, n, cap, itk=0, lenfix=2))
            else:
                for sz in sorted(set([0, max(cap - 1, 0), cap])): js.append(rng_job(op, elem, n, cap, itk=0, lenfix=2, sizefix=sz))   # instrumented type + single pass: size pinned too
    for op in ['ctor_count', 'ctor_count_val', 'ctor_gen', 'ctor_il']:
        for n in (0, 2): js.append(rng_job(op, elem, n, n))
    return [j for j in js if j is not None]

REG = {}
NOT_APPLICABLE = {
    'C20': 'The subject is a Python script run by GDB\'s embedded interpreter against DWARF of a live process and a natvis XML interpreted by Visual Studio; neither engine can be encoded for a solver, '
           'and a solver-driven mock gdb.Value would verify the mock, not the printer. Deciding it needs running gdb on compiled programs (testing, a different technique).',
}
def get(pid):
    if pid not in REG: raise SystemExit('unknown or unclaimed property ' + pid)
    return REG[pid]

# ---------------------------------------------------------------- C01
def c01_jobs(tier):
    js = []
    if tier == 'quick':
        for op in OPS_ALL:
            for (n, cap) in cells(tier): js.append(ops_job(op, 'int', n, cap))
        for op in ['insert_n', 'insert_c', 'push_back_m', 'erase_range', 'resize_v', 'assign_n', 'emplace_back', 'insert_range']:
            for (n, cap) in [(2, 2), (2, 4)]: js.append(ops_job(op, 'Tr', n, cap))
        # a larger heap capacity with counts up to 3 for the shifting operations (tails of 2 or more elements next to counts of 2..3)
        for op in ['insert_n', 'insert_range', 'insert_il', 'insert_c', 'emplace', 'erase_range', 'assign_n', 'resize_v']:
            js.append(ops_job(op, 'int', 2, 6, maxcnt=3)); js.append(ops_job(op, 'int', 0, 5, maxcnt=3))
    else:
        for op in OPS_ALL:
            for (n, cap) in cells(tier):
                js.append(ops_job(op, 'int', n, cap, maxcnt=3))
                js.append(ops_job(op, 'Tr', n, cap, maxcnt=3))
            for el in ['TrM', 'TrC', 'TrX']:
                if elem_supports(el, op):
                    for (n, cap) in [(2, 2), (2, 4)]: js.append(ops_job(op, el, n, cap))
    # arguments that refer to an element of the container itself are ordinary std::vector usage too (C11 explores them in depth): the heap cell for
    # int and for the element type whose moves change their source
    for op in OPS_ALIAS:
        js.append(ops_job(op, 'int', 2, 4, alias=1)); js.append(ops_job(op, 'Pz', 2, 4, alias=1, maxcnt=2))
    js += two_basic(tier) + rng_basic(tier)
    from .jobs import std_two_job, std_ops_job
    for op in ['insert_n', 'push_back_c', 'erase_range', 'resize_v', 'assign_n', 'shrink', 'reserve', 'insert_range']:
        js.append(std_ops_job(op, 'int', 2, 4)); js.append(std_ops_job(op, 'int', 0, 0) if op not in ('erase_range', 'shrink') else None)
    for op in OPS2_ALL:
        js.append(std_two_job(op, 'int', 2, 2, 2, 4)); js.append(std_two_job(op, 'int', 2, 3, 2, 5)); js.append(std_two_job(op, 'int', 3, 2, 3, 3))
    # element type bool from byte-sized integers (bulk-copy candidates) and ranges whose reference type is constructible but not assignable to value_type
    from .jobs import conv_job, rng_job
    for (s_, d_) in [('unsigned char', 'bool'), ('char', 'bool')]:
        js.append(conv_job(s_, d_, via=1, part=1)); js.append(conv_job(s_, d_, via=0, part=3))
    for (op, n, cap) in [('assign_range', 0, 0), ('assign_range', 2, 2), ('insert_range', 2, 2), ('append_range', 0, 0), ('ctor_range', 0, 0)]:
        js.append(rng_job(op, 'Tr', n, cap, itk=1, extra_defs={'VF_SRCINT': 1}, tag='-srcint'))
    return [j for j in js if j is not None]

REG['C01'] = Spec('C01', c01_jobs, tags=['C01', 'C13'], memsafe=True, compile_failure_is_violation=True, explanation=
    'Per member operation one harness: arbitrary valid pre-state (inline or heap, any size <= capacity, any element values) -> the operation with symbolic '
    'arguments -> size(), every element, returned iterator position / reference / at() exception compared with a sequence model carrying std::vector\'s specified semantics. '
    'Because the post-state again satisfies the invariant the per-operation result extends to call histories by induction (up to the capacity bound).')

def _nn(js): return [j for j in js if j is not None]
K_ITER_ = J.K_DEREF | J.K_INC | J.K_CMP
FAULT_W = ['normal return', 'exceptional exit (injected fault)']

# ---------------------------------------------------------------- C02: storage invariants on every exit
def c02_jobs(tier):
    js = []
    if tier == 'quick':
        for op in OPS_ALL:
            for (n, cap) in cells(tier): js.append(ops_job(op, 'int', n, cap))
        for op in ['insert_n', 'push_back_c', 'resize_v', 'assign_n', 'shrink', 'reserve', 'erase_range']:
            js.append(ops_job(op, 'Tr', 2, 4, fmask=J.K_ALL, witness=FAULT_W if op != 'erase_range' else None))
        for op in ['insert_c', 'resize_v', 'push_back_c']:
            js.append(ops_job(op, 'TrX', 2, 2, fmask=J.K_ALL, witness=FAULT_W))
    else:
        for op in OPS_ALL:
            for (n, cap) in cells(tier):
                js.append(ops_job(op, 'int', n, cap, maxcnt=3))
                js.append(ops_job(op, 'Tr', n, cap, fmask=J.K_ALL))
            for (n, cap) in [(2, 2), (2, 4)]:
                if elem_supports('TrX', op): js.append(ops_job(op, 'TrX', n, cap, fmask=J.K_ALL))
    js += two_basic(tier) + rng_basic(tier)
    js += two_basic(tier, 'TrX', fmask=J.K_ALL, afls=((0, 0),), ops=['copy_assign', 'move_assign', 'assign_move', 'append_copy'])[:16] if tier == 'quick' else two_basic(tier, 'TrX', fmask=J.K_ALL)
    return _nn(js)
REG['C02'] = Spec('C02', c02_jobs, explanation=
    'The representation invariant INV(v) (size<=capacity<=max(max_size,N), capacity>=N, inlined() iff capacity()==N iff data() inside the object / null for N==0, '
    'heap data() is a live ledger block of exactly capacity() elements owned by an equal allocator, contiguity, iterator flavours agree, inlinable()) is asserted on '
    'every exit (normal, injected-exception, length_error) of every operation started from an arbitrary state satisfying INV; shrink_to_fit additionally capacity()==max(size(),N).')

# ---------------------------------------------------------------- C03: element lifetimes
def c03_jobs(tier):
    js = []
    if tier == 'quick':
        for op in OPS_ALL:
            if op in ('at', 'access'): continue
            js.append(ops_job(op, 'Tr', 2, 4))
        for op in ['insert_n', 'insert_c', 'push_back_c', 'resize_v', 'assign_n', 'emplace_back', 'erase_range', 'insert_range']:
            js.append(ops_job(op, 'Tr', 2, 2))
        for op in ['insert_n', 'insert_c', 'resize_v', 'assign_n', 'push_back_c']:
            js.append(ops_job(op, 'Tr', 2, 4, fmask=J.K_ALL, witness=FAULT_W))
        for op in ['push_back_m', 'insert_m', 'resize', 'erase1']:
            js.append(ops_job(op, 'TrM', 2, 4)); js.append(ops_job(op, 'TrC', 2, 2) if op in ('resize', 'erase1') else None)
        js.append(ops_job('insert_c', 'TrX', 0, 2, fmask=J.K_ALL, witness=FAULT_W))
    else:
        for el in ['Tr', 'TrX', 'TrM', 'TrC']:
            for op in OPS_ALL:
                if op in ('at', 'access') or not elem_supports(el, op): continue
                for (n, cap) in (cells(tier) if el == 'Tr' else [(0, 2), (2, 2), (2, 4)]):
                    js.append(ops_job(op, el, n, cap, fmask=J.K_ALL, extra_defs={'VF_NFAULTS': 2 if op.startswith('insert') else 1}))
    js += [j for j in two_basic(tier, 'Tr', afls=((0, 1), (0, 0))) if tier != 'quick' or j.defs['VF_OP'] in ('OP_copy_ctor', 'OP_move_ctor', 'OP_copy_assign', 'OP_move_assign', 'OP_assign_move', 'OP_append_copy') and (j.defs['VF_CAPA'], j.defs['VF_CAPB']) in ((2, 4), (4, 4), (3, 3), (2, 5), (2, 3))]
    js += rng_basic(tier, 'Tr')
    return _nn(js)
REG['C03'] = Spec('C03', c03_jobs, memsafe=True, explanation=
    'Instrumented element types carry an in-object shadow state (RAW/LIVE/MOVED/DEAD) owned by the C side. Every constructor/assignment/destructor hook asserts '
    'its lifetime pre-condition (no construct over live, no read/assign/destroy of non-live storage) at every step inside the operation; on every exit live objects == size() '
    '(+ harness-owned arguments), slots [0,size) alive and [size,capacity) not; after destruction every object constructed was destroyed once.')

# ---------------------------------------------------------------- C04: allocations paired, inline avoids allocator
def c04_jobs(tier):
    js = []
    if tier == 'quick':
        for op in OPS_ALL:
            if op in ('at', 'access'): continue
            for (n, cap) in cells(tier): js.append(ops_job(op, 'int', n, cap))
        for op in ['insert_n', 'push_back_c', 'resize_v', 'assign_n', 'reserve', 'shrink', 'insert_range']:
            js.append(ops_job(op, 'Tr', 2, 4, fmask=J.K_ALL, witness=FAULT_W))
        for op in ['push_back_c', 'insert_c', 'resize_v']:
            js.append(ops_job(op, 'Tr', 2, 2, fmask=J.K_ALL, witness=FAULT_W))
    else:
        for op in OPS_ALL:
            if op in ('at', 'access'): continue
            for (n, cap) in cells(tier):
                js.append(ops_job(op, 'int', n, cap, maxcnt=3))
                js.append(ops_job(op, 'Tr', n, cap, fmask=J.K_ALL))
    from .jobs import A_POCCA, A_POCMA, A_POCS, A_IAE, std_two_job, std_ops_job, OPS2_ALL
    for op in OPS2_ALL:
        js.append(std_two_job(op, 'int', 2, 2, 2, 4)); js.append(std_two_job(op, 'int', 2, 2, 4, 2)); js.append(std_two_job(op, 'int', 3, 2, 3, 3))
    for op in ['insert_n', 'push_back_c', 'resize_v', 'shrink', 'reserve', 'clear', 'assign_n']: js.append(std_ops_job(op, 'int', 2, 4)); js.append(std_ops_job(op, 'Tr', 2, 2) if op in ('push_back_c', 'insert_n') else None)
    js += two_basic(tier, afls=((0, 1), (0, 0), (A_POCS, 0), (A_POCMA, 0), (A_POCCA, 0), (A_IAE, 0))) + rng_basic(tier)
    return _nn(js)
REG['C04'] = Spec('C04', c04_jobs, explanation=
    'Allocator ledger: every deallocate must find its live block with the same element count and an equal allocator id (also cbmc double-free / freed-object checks); on every exit '
    'the live blocks are exactly the buffers of non-inlined containers; after destruction the ledger is empty and allocate/deallocate counts are equal. '
    '"Fits => no allocate": the allocate counter is unchanged whenever the model result fits the capacity observed before the call (shrink_to_fit excepted).')

# ---------------------------------------------------------------- C05: strong exception guarantee
def c05_jobs(tier):
    js = []
    cs = [(2, 2), (2, 4), (0, 2)] if tier == 'quick' else cells(tier)
    for op in OPS_STRONG:
        for el in (['TrX', 'Tr'] if tier == 'quick' else ['TrX', 'Tr', 'TrC']):
            if not elem_supports(el, op): continue
            for (n, cap) in cs:
                if tier == 'quick' and el == 'Tr' and (n, cap) != (2, 4): continue
                js.append(ops_job(op, el, n, cap, fmask=J.K_ALL, witness=FAULT_W))
    return _nn(js)
REG['C05'] = Spec('C05', c05_jobs, explanation=
    'For each strongly-guaranteed growing call (push_back x2, emplace_back, insert/emplace of one element at end(), reserve, resize x2, shrink_to_fit, append x2) on element types whose '
    'copy and move constructors (and the allocator) may throw: the throw point is a solver variable (vf_fault counter == symbolic input); on exceptional exit size, every value, '
    'every element state (none moved-from), the block ledger, and for the std::vector-specified operations capacity() and data(), must equal the snapshot taken before the call. '
    'A witness proves the exceptional exit is reachable in every configuration.')

# ---------------------------------------------------------------- C06: basic exception guarantee
def c06_jobs(tier):
    js = []
    muts = [op for op in OPS_ALL if op not in ('at', 'access', 'clear', 'pop_back', 'erase1', 'erase_range')]
    if tier == 'quick':
        for op in muts:
            js.append(ops_job(op, 'TrX' if elem_supports('TrX', op) else 'TrM', 2, 4, fmask=J.K_ALL, witness=FAULT_W))
        for op in ['insert_n', 'insert_c', 'assign_n', 'resize_v', 'insert_range', 'erase_range', 'erase1']:
            js.append(ops_job(op, 'TrX', 2, 2, fmask=J.K_ALL, witness=FAULT_W))
        js.append(ops_job('insert_n', 'Tr', 2, 4, fmask=J.K_ALL, extra_defs={'VF_NFAULTS': 2}, witness=FAULT_W, tag='-2f'))
    else:
        for op in muts + ['erase1', 'erase_range']:
            for el in ['TrX', 'Tr', 'TrC', 'TrM']:
                if not elem_supports(el, op): continue
                for (n, cap) in (cells(tier) if el == 'TrX' else [(2, 2), (2, 4)]):
                    js.append(ops_job(op, el, n, cap, fmask=J.K_ALL, extra_defs={'VF_NFAULTS': 2}, witness=FAULT_W, tag='-2f'))
    if tier == 'quick':
        tb = two_basic(tier, 'TrX', fmask=J.K_ALL, afls=((0, 0),), ops=[o for o in OPS2_ALL if o not in ('swap', 'nm_swap')])
        js += [j for j in tb if (j.defs['VF_CAPA'], j.defs['VF_CAPB']) in ((2, 4), (4, 4), (3, 3))]
        js.append(two_job('move_assign', 'TrX', 2, 2, 4, 4, fmask=J.K_ALL)); js.append(two_job('copy_assign', 'TrX', 2, 2, 4, 4, fmask=J.K_ALL))
        for sa in (1, 2): js.append(two_job('swap', 'TrX', 2, 2, 2, 4, ideq=0, fmask=J.K_ALL, sizea=sa))   # swap: measured > 10 GB with both sizes symbolic
        js.append(two_job('swap', 'TrX', 2, 2, 2, 2, fmask=J.K_ALL, sizea=1))
    else:
        js += two_basic(tier, 'TrX', fmask=J.K_ALL, afls=((0, 1), (0, 0)), ops=[o for o in OPS2_ALL if o not in ('swap', 'nm_swap')])
        for (ca, cb) in [(2, 2), (2, 4), (4, 2), (4, 4)]:
            for sa in range(0, ca + 1):
                for ideq in (0, 1): js.append(two_job('swap', 'TrX', 2, 2, ca, cb, ideq=ideq, fmask=J.K_ALL, sizea=sa))
    from .jobs import rng_job
    for op in ['ctor_range', 'assign_range', 'insert_range', 'append_range']:
        js.append(rng_job(op, 'TrX', 2, 2 if op == 'ctor_range' else 4, itk=1, fmask=J.K_ALL | K_ITER_, length=2 if op == 'insert_range' else 3)); js.append(rng_job(op, 'int', 2, 2 if op == 'ctor_range' else 4, itk=0, fmask=K_ITER_, lenfix=2))
    for op in ['ctor_count', 'ctor_count_val', 'ctor_gen', 'ctor_il']: js.append(rng_job(op, 'TrX', 2, 2, fmask=J.K_ALL | J.K_GEN))
    return _nn(js)
REG['C06'] = Spec('C06', c06_jobs, tags=['C06', 'C02', 'C03', 'C04'], memsafe=True, explanation=
    'Every mutating operation with faults injected at element copy/move/assign/default/value construction and allocate (throw point(s) = solver variables; two faults for roll-back paths in the thorough tier): '
    'on exceptional exit INV holds, live objects == size(), ledger consistent, then clear(); push_back(x) must work and INV must hold again; destruction leaves no object or block.')

# ---------------------------------------------------------------- C10: no reallocation while capacity suffices
def c10_jobs(tier):
    js = []
    ops = [op for op in OPS_ALL if op not in ('at', 'access')]
    if tier == 'quick':
        for op in ops:
            for (n, cap) in cells(tier): js.append(ops_job(op, 'int', n, cap))
        for op in ['insert_n', 'insert_c', 'push_back_c', 'resize_v', 'assign_n', 'emplace', 'insert_range', 'append_range', 'erase_range', 'reserve', 'emplace_back']:
            js.append(ops_job(op, 'Tr', 2, 4))
    else:
        for op in ops:
            for (n, cap) in cells(tier):
                js.append(ops_job(op, 'int', n, cap, maxcnt=3)); js.append(ops_job(op, 'Tr', n, cap, maxcnt=3))
    from .jobs import rng_job
    for (op, n, cap) in [('assign_range', 0, 0), ('assign_range', 2, 2), ('append_range', 0, 0), ('append_range', 2, 2)]:
        for itk in (1, 2, 3):
            js.append(rng_job(op, 'int', n, cap, itk=itk))
            if itk != 3: js.append(rng_job(op, 'Tr', n, cap, itk=itk, extra_defs={'VF_SRCINT': 1}, tag='-srcint'))
    js.append(rng_job('insert_range', 'int', 0, 0, itk=1)); js.append(rng_job('insert_range', 'int', 2, 2, itk=2))
    # single-pass ranges: capacity() and data() stay when the result fits (the count is not known up front, so the at-most-one-reallocation clause does not apply)
    for op in ['assign_range', 'append_range', 'insert_range']:
        for ln in (1, 2, 3): js.append(rng_job(op, 'int', 2, 4, itk=0, lenfix=ln))
    return _nn(js)
REG['C10'] = Spec('C10', c10_jobs, tags=['C10'], explanation=
    'From an arbitrary state: when the model result fits capacity() observed before the call, capacity(), data() and the allocate counter are unchanged and (instrumented type) the per-object touch counter of every '
    'element before the first modified position is unchanged; reserve(n) gives capacity()>=n and is event-free when n<=capacity(); pop_back/erase/clear never change capacity()/data(); '
    'a growing call with known count allocates exactly once.')

# ---------------------------------------------------------------- C11: self-aliasing arguments
def c11_jobs(tier):
    js = []
    for op in OPS_ALIAS:
        for el in ['int', 'Tr']:
            for (n, cap) in ([(2, 2), (2, 4), (0, 2)] if tier == 'quick' else [c for c in cells(tier) if c[1] > 0]):
                if tier == 'quick' and el == 'Tr' and (n, cap) == (0, 2): continue
                js.append(ops_job(op, el, n, cap, alias=1, maxcnt=2 if tier == 'quick' else 3))
    for op in ['insert_n', 'insert_c', 'emplace']: js.append(ops_job(op, 'int', 2, 6, alias=1, maxcnt=3))
    # element type whose move operations change their source (Pz): a copy taken from an element that was already moved from is a wrong value
    for op in OPS_ALIAS:
        for (n, cap) in ([(2, 2), (2, 4)] if tier == 'quick' else [(2, 2), (2, 4), (0, 2), (3, 3), (2, 5)]):
            if cap == n:
                for sz in range(1, cap + 1): js.append(ops_job(op, 'Pz', n, cap, alias=1, maxcnt=2, size=sz))   # struct element in the inline representation: size pinned
            else: js.append(ops_job(op, 'Pz', n, cap, alias=1, maxcnt=2))
    return _nn(js)
REG['C11'] = Spec('C11', c11_jobs, tags=['C11', 'C01'], memsafe=True, explanation=
    'push_back(v[i]), emplace_back(v[i]), insert(pos,v[i]), insert(pos,n,v[i]), emplace(pos,v[i]), resize(n,v[i]) with symbolic i<size, pos<=size, n, from every (rep,cap,size) cell, '
    'reallocating and in place; oracle: the sequence model applied to a copy of m[i] taken before the call.')

# ---------------------------------------------------------------- C14 (b): every growing path grows geometrically
def c14_jobs(tier):
    js = []
    for op in OPS_GROW:
        for (n, cap) in cells(tier):
            w = ['normal return'] + ([] if (op in ('assign_range', 'assign_il', 'assign_op_il') and cap >= 3) else ['reallocating path'])
            js.append(ops_job(op, 'int', n, cap, maxcnt=2 if tier == 'quick' else 3, witness=w))
        if tier != 'quick':
            for (n, cap) in [(2, 2), (2, 4)]:
                w = ['normal return'] + ([] if (op in ('assign_range', 'assign_il', 'assign_op_il') and cap >= 3) else ['reallocating path'])
                js.append(ops_job(op, 'Tr', n, cap, witness=w))
    return _nn(js)

# ================================================================ two-container grids
from .jobs import two_job, OPS2_ALL, A_POCCA, A_POCMA, A_POCS, A_IAE, A_SOCC

SAME_CELLS = [(2, 2, 2, 2), (2, 2, 2, 4), (2, 2, 4, 2), (2, 2, 4, 4), (0, 0, 0, 2), (0, 0, 2, 2), (0, 0, 2, 0)]
CROSS_CELLS = [(2, 3, 2, 3), (2, 3, 2, 5), (3, 2, 3, 2), (3, 2, 3, 4), (3, 2, 5, 4), (0, 2, 0, 2), (0, 2, 0, 4), (2, 0, 2, 0), (2, 0, 2, 3), (2, 0, 4, 1)]

def relevant_afl(op, full=False):
    if full: return [a | i for a in range(8) for i in (0, A_IAE)] + ([a | A_SOCC for a in (0, 7)] if 'copy_ctor' == op else [])
    if op == 'copy_ctor': return [0, A_SOCC, A_IAE]
    if op in ('move_ctor',): return [0, A_IAE]
    if op in ('copy_ctor_alloc', 'move_ctor_alloc'): return [0, A_IAE]
    if op in ('copy_assign', 'assign_copy'): return [0, A_POCCA, A_IAE, A_POCCA | A_IAE]
    if op in ('move_assign', 'assign_move'): return [0, A_POCMA, A_IAE, A_POCMA | A_IAE]
    if op in ('swap', 'nm_swap'): return [0, A_POCS, A_IAE, A_POCS | A_IAE]
    return [0]

def c07_jobs(tier):
    js = []
    ops = ['copy_ctor', 'move_ctor', 'copy_ctor_alloc', 'move_ctor_alloc', 'copy_assign', 'move_assign', 'swap', 'assign_copy', 'assign_move']
    for op in ops:
        for afl in relevant_afl(op, full=(tier != 'quick')):
            for ideq in (1, 0):
                cs = SAME_CELLS[:4] + ([(0, 0, 2, 2)] if tier == 'quick' else SAME_CELLS[4:])
                if op in ('assign_copy', 'assign_move', 'copy_ctor', 'move_ctor', 'copy_ctor_alloc', 'move_ctor_alloc'):
                    cs = cs + (CROSS_CELLS[1:2] + CROSS_CELLS[3:4] if tier == 'quick' else CROSS_CELLS)
                for (na, nb, ca, cb) in cs:
                    js.append(two_job(op, 'int', na, nb, ca, cb, afl=afl, ideq=ideq))
        if tier != 'quick':
            for afl in relevant_afl(op):
                for ideq in (1, 0):
                    js.append(two_job(op, 'Tr', 2, 2, 4, 4, afl=afl, ideq=ideq, followup=1))
    return _nn(js)
REG['C07'] = Spec('C07', c07_jobs, tags=['C07'], compile_failure_is_violation=True, also=['C04: deallocate through an allocator not equal to the one that allocated'], explanation=
    'Allocators carry an id; for every relevant combination of POCCA/POCMA/POCS, is_always_equal, select_on_container_copy_construction, equal/unequal ids, same and different inline capacities and '
    '(inline/heap, size) states of both operands: after copy/move/allocator-extended construction, copy/move assignment, assign(), swap the id of get_allocator() of both containers equals what the traits prescribe, '
    'and a follow-up reserve(capacity()+1) on each container must allocate through that current id (ledger); every block released afterwards (follow-up, destruction) must be released through an allocator equal to the one that produced it ("all later storage traffic uses the container\'s current allocator": the ledger assertion shared with C04). A trait combination that does not compile is reported as a violation (front-end decided).')

def c09_jobs(tier):
    js = []
    el = 'Tr'
    if tier == 'quick':
        # steal paths (cheap) in every allocator configuration that permits them; element-wise paths where stealing is impossible
        for op in ['move_ctor', 'move_assign', 'assign_move', 'swap']:
            for (afl, ideq) in [(0, 1), (A_IAE, 0), ((A_POCMA if 'assign' in op or op == 'move_assign' else A_POCS) if op != 'move_ctor' else 0, 0)]:
                for (na, nb, ca, cb) in [(2, 2, 2, 4), (2, 2, 4, 4)]:
                    js.append(two_job(op, el, na, nb, ca, cb, afl=afl, ideq=ideq, witness=['normal return', 'steal path']))
        for op in ['move_ctor', 'assign_move']:
            js.append(two_job(op, el, 2, 3, 2, 5, witness=['normal return', 'steal path']))        # N < M, big buffer: steal
            js.append(two_job(op, el, 3, 2, 3, 4, witness=['normal return', 'steal path']))        # N > M, cap 4 > 3: steal
            js.append(two_job(op, el, 3, 2, 3, 3, witness=['normal return', 'element-wise path'])) # heap source too small for destination inline: element-wise
            js.append(two_job(op, el, 0, 2, 0, 3, witness=['normal return', 'steal path']))
        js.append(two_job('move_ctor_alloc', el, 2, 2, 2, 4, ideq=0, witness=['normal return', 'element-wise path']))
        js.append(two_job('move_ctor_alloc', el, 2, 2, 2, 4, afl=A_IAE, ideq=0, witness=['normal return', 'steal path']))
        js.append(two_job('move_assign', el, 2, 2, 2, 4, ideq=0, witness=['normal return', 'element-wise path']))   # unequal, non-propagating
        js.append(two_job('move_assign', el, 2, 2, 4, 2, witness=['normal return', 'element-wise path']))           # inline source
        js.append(two_job('swap', el, 2, 2, 4, 2, sizea=2, witness=['normal return']))
        from .jobs import std_two_job
        for op in ['move_ctor', 'move_assign', 'assign_move', 'swap']:   # std::allocator: always interchangeable
            js.append(std_two_job(op, el, 2, 2, 2, 4, witness=['normal return', 'steal path'])); js.append(std_two_job(op, el, 2, 2, 4, 4, witness=['normal return', 'steal path']))
        js.append(std_two_job('move_ctor', el, 2, 3, 2, 5, witness=['normal return', 'steal path'])); js.append(std_two_job('assign_move', el, 3, 2, 3, 3, witness=['normal return', 'element-wise path']))
    else:
        for op in ['move_ctor', 'move_ctor_alloc', 'move_assign', 'assign_move', 'swap', 'nm_swap']:
            for (afl, ideq) in [(0, 1), (0, 0), (A_IAE, 0), (A_POCMA, 0), (A_POCS, 0), (A_POCMA | A_POCS, 1)]:
                cs = SAME_CELLS if op in ('move_assign', 'swap', 'nm_swap') else SAME_CELLS + CROSS_CELLS
                for (na, nb, ca, cb) in cs:
                    elementwise_swap = op in ('swap', 'nm_swap') and ideq == 0 and not (afl & (A_IAE | A_POCS)) and (ca == na or cb == nb)
                    if ca == na and cb == nb and na != nb and ca > 0 and cb > 0 and op == 'assign_move':
                        # both inline with different inline capacities, instrumented elements: sizes pinned, all pairs (measured: > 10 GB with free sizes)
                        for sa in range(0, ca + 1):
                            for sb in range(0, cb + 1): js.append(two_job(op, el, na, nb, ca, cb, afl=afl, ideq=ideq, sizea=sa, sizeb=sb))
                    elif elementwise_swap and ca > 0:
                        for sa in range(0, ca + 1): js.append(two_job(op, el, na, nb, ca, cb, afl=afl, ideq=ideq, sizea=sa))   # measured: > 10 GB with both sizes free
                    else:
                        js.append(two_job(op, el, na, nb, ca, cb, afl=afl, ideq=ideq))
    return _nn(js)
REG['C09'] = Spec('C09', c09_jobs, tags=['C09'], memsafe=True, explanation=
    'Move construction / move assignment / assign(&&) / swap on an instrumented element type: whenever the documented steal condition holds (written from the property text: source heap, '
    'source capacity > destination inline capacity, allocators interchangeable) the destination data() must be the source\'s old data(), capacity preserved, per-object touch counters of the transferred '
    'elements unchanged, global element events == destruction of the destination\'s previous elements, no allocation, source empty and inlined; otherwise the element-wise result; the moved-from source is valid and reusable.')

# ---------------------------------------------------------------- C14: geometric growth
from .jobs import kern_job
SIZETS = ['uint8_t', 'uint16_t', 'uint32_t', 'std::size_t']
def c14_all(tier):
    js = [kern_job(st, kn=kn, esz=esz) for st in SIZETS for (kn, esz) in ([(0, 1), (2, 4)] if tier == 'quick' else [(0, 1), (2, 4), (3, 8), (1, 1)])]
    return js + c14_jobs(tier)
REG['C14'] = Spec('C14', c14_all, tags=['C14'], explanation=
    '(a) the growth kernel unchecked/checked_calculate_new_capacity driven at FULL WIDTH (size, capacity, required, max_size unconstrained 64-bit words; size_type 8/16/32/64 bit): '
    'for all cap < required <= max_size the result is >= required, <= max_size and >= min(max_size, cap + cap/2). (b) every growing path uses it: for each growing operation from an arbitrary state in which it reallocates, '
    'capacity() after satisfies the same inequalities w.r.t. capacity() before and the model size. (c) "O(log n) allocations / O(n) relocations for n push_backs" follows from (a)+(b) by the textbook summation '
    '(cap_k >= 1.5^k cap_0: at most log_1.5(n) reallocations, relocating sum_k cap_k <= 3n elements); the summation is an argument, not a solver claim; million-element runs are not executed.',
    bounds=lambda tier: {'kernel': 'all 64-bit values of size, capacity, required, count and allocator max_size for size_type in {uint8_t,uint16_t,uint32_t,size_t}'})

# ---------------------------------------------------------------- C12: max_size / length_error / no wrap
def c12_jobs(tier):
    js = [kern_job(st, kn=kn, esz=esz) for st in SIZETS for (kn, esz) in ([(0, 1), (2, 4)] if tier == 'quick' else [(0, 1), (2, 4), (3, 8), (1, 1)])]
    grow = [op for op in OPS_GROW]
    W = ['normal return', 'length_error exit']
    for op in grow:
        for (n, cap, m) in ([(2, 2, 3), (2, 4, 5), (0, 2, 3)] if tier == 'quick' else [(2, 2, 3), (2, 4, 5), (0, 2, 3), (0, 0, 1), (3, 3, 4), (2, 3, 3), (1, 2, 2)]):
            if op in ('push_back_c', 'push_back_m', 'emplace_back', 'insert_c', 'insert_m', 'emplace'): m = cap   # full at max_size(): one more must throw (max_size() == 0 for the empty N == 0 cell)
            if op in ('assign_range', 'assign_il', 'assign_op_il'):
                if cap > 2: continue
                m = 2
            Wc = W if m > 0 or op in ('insert_n', 'resize', 'resize_v', 'assign_n', 'reserve', 'insert_range', 'insert_il', 'append_range', 'append_il') else ['length_error exit']   # max_size() == 0: a single-element insertion can only throw
            js.append(ops_job(op, 'int', n, cap, maxsz=m, witness=Wc))
            if tier != 'quick' or (op in ('insert_n', 'push_back_c', 'resize_v', 'append_range') and (n, cap) == (2, 4)):
                js.append(ops_job(op, 'Tr', n, cap, maxsz=m, witness=Wc))
    # requests anywhere in the range of size_type (all 2^8 / 2^64 counts beyond max_size): must throw before touching anything; catches wrap-around in size()+count
    for op in ['insert_n', 'resize', 'resize_v', 'assign_n', 'reserve']:
        for st in ['uint8_t', 'std::size_t'] + ([] if tier == 'quick' else ['uint16_t', 'uint32_t']):
            for (n, cap) in ([(2, 4)] if tier == 'quick' else [(2, 4), (2, 2), (0, 2)]):
                js.append(ops_job(op, 'int', n, cap, bigcnt=True, sizet=st, witness=['length_error exit']))
    # range lengths beyond what the size type / max_size() allow (counting ranges: a correct implementation throws before touching an element)
    from .jobs import rng_job
    for op in ['ctor_range', 'assign_range', 'insert_range', 'append_range']:
        for itk in ((2,) if tier == 'quick' else (1, 2)):
            js.append(rng_job(op, 'int', 2, 2 if op == 'ctor_range' else 4, itk=2, sizet='uint8_t', extra_defs={'VF_BIGLEN': 1}, tag='-biglen', witness=['length_error exit']))
            js.append(rng_job(op, 'int', 2, 2 if op == 'ctor_range' else 4, itk=2, sizet='uint8_t', extra_defs={'VF_MIDLEN': 1}, tag='-midlen', witness=['length_error exit']))
    for op in ['ctor_range', 'ctor_count', 'ctor_count_val', 'ctor_gen', 'ctor_il', 'assign_range', 'insert_range', 'append_range']:
        js.append(rng_job(op, 'int', 2, 2 if (op.startswith('ctor') or op == 'assign_range') else 4, itk=1, maxsz=2 if op.startswith('ctor') or op == 'assign_range' else 5, witness=['normal return', 'length_error exit']))
    # narrow size_type allocators: same operations, size_type = uint8_t / uint16_t (internal size type uint_fast8_t is 8 bits here)
    for op in (['insert_n', 'push_back_c', 'resize_v', 'assign_n', 'reserve', 'append_range'] if tier == 'quick' else grow):
        for st in ['uint8_t', 'uint16_t'] + ([] if tier == 'quick' else ['uint32_t']):
            js.append(ops_job(op, 'int', 2, 4, maxsz=4 if op in ('push_back_c', 'push_back_m', 'emplace_back', 'insert_c', 'insert_m', 'emplace') else (2 if op in ('assign_range', 'assign_il', 'assign_op_il') else 5), sizet=st, witness=W) if not (op in ('assign_range', 'assign_il', 'assign_op_il')) else None)
    return _nn(js)
REG['C12'] = Spec('C12', c12_jobs, tags=['C12'], memsafe=True, explanation=
    '(a) size arithmetic at full width: max_size() == min(allocator max, difference_type max) and fits size_type; the growth kernel never exceeds max_size nor truncates when stored; the guard max_size()-size() < count is exact and size()+count cannot wrap '
    'in the internal size type (8/16/32/64-bit size_type). (b) behaviour at the limit: the allocator reports a small harness-chosen max_size M so that "one past max_size" is reachable with a handful of elements: every growing operation from an arbitrary state whose '
    'result would exceed M must throw std::length_error and leave the container unchanged; the allocator hook asserts it is never asked for more than max_size(); writes past a block are cbmc bounds violations (exact-size blocks). '
    '(c) constructors and range lengths beyond max_size: see the constructor / iterator checks of this property.')

# ---------------------------------------------------------------- C15: single-pass inputs, forward ranges, generator
from .jobs import rng_job
K_ITER = J.K_DEREF | J.K_INC | J.K_CMP
def c15_jobs(tier):
    js = []
    rops = ['ctor_range', 'assign_range', 'insert_range', 'append_range']
    cs = [(2, 2), (2, 4), (0, 2)] if tier == 'quick' else [(2, 2), (2, 4), (0, 2), (0, 0), (3, 3), (1, 2)]
    for op in rops:
        for (n, cap) in cs:
            if op == 'ctor_range' and cap != n: continue
            for itk in (1, 2, 3):
                js.append(rng_job(op, 'int', n, cap, itk=itk))
            for ln in range(0, 4):   # single-pass: the length is pinned so that symex bounds the consuming loop exactly; size/position/values stay symbolic
                js.append(rng_job(op, 'int', n, cap, itk=0, lenfix=ln))
    # instrumented element type with single-pass input: size and length pinned, values and positions symbolic
    for op in rops:
        for (sz, ln) in ([(3, 2), (1, 3), (0, 1)] if tier == 'quick' else [(s, l) for s in range(0, 5) for l in range(0, 4)]):
            js.append(rng_job(op, 'Tr', 2, 2 if op == 'ctor_range' else 4, itk=0, lenfix=ln, sizefix=None if op == 'ctor_range' else sz))
        js.append(rng_job(op, 'Tr', 2, 2 if op == 'ctor_range' else 4, itk=1))
    for el in ('int', 'Tr'):
        for n in (0, 2): js.append(rng_job('ctor_gen', el, n, n))
    for n in (0, 2):
        js.append(rng_job('ctor_count', 'int', n, n)); js.append(rng_job('ctor_count_val', 'int', n, n)); js.append(rng_job('ctor_il', 'int', n, n))
    js.append(rng_job('ctor_count', 'Tr', 2, 2)); js.append(rng_job('ctor_count_val', 'Tr', 2, 2)); js.append(rng_job('ctor_il', 'Tr', 2, 2))
    return _nn(js)
REG['C15'] = Spec('C15', c15_jobs, tags=['C15', 'C01'], memsafe=True, explanation=
    'Instrumented iterators over a harness-owned array: every dereference / increment / comparison goes through hooks that keep one stream cursor. Input category (strict): a copy whose snapshot is older than the cursor must never be '
    'dereferenced, incremented or compared; nothing at or beyond last; at the end every position was dereferenced exactly once and incremented exactly once and the cursor is at last. Forward / random-access: never advanced or read at or past last. '
    'Generator constructor: called exactly count times, i-th value in slot i. Results equal the sequence model (hence the random-access result). Constructors from count / value / initializer_list are included.')

# ---------------------------------------------------------------- C16: comparisons and non-member functions
from .jobs import cmp_job
def c16_jobs(tier):
    js = []
    stds = ['c++17', 'c++20'] if tier == 'quick' else ['c++11', 'c++14', 'c++17', 'c++20', 'c++2b']
    for std in stds:
        for el in ['int', 'Tv', 'Tw'] + (['Tr'] if tier != 'quick' or std == 'c++20' else []):
            for (na, nb, ca, cb) in ([(2, 2, 4, 4), (2, 3, 2, 4), (0, 2, 3, 2)] if tier == 'quick' else [(2, 2, 4, 4), (2, 2, 2, 2), (2, 3, 2, 4), (3, 2, 4, 2), (0, 2, 3, 2), (0, 0, 4, 4), (2, 0, 2, 4)]):
                js.append(cmp_job(0, el, na, nb, ca, cb, std=std))
        js.append(cmp_job(0, 'int', 2, 3, 4, 4, std=std, extra_clang=['-DGCH_DISABLE_CONCEPTS'], tag='-noconcepts') if std in ('c++20', 'c++2b') else None)
    for std in stds[-2:]:
        for el in ['int', 'Tr']:
            js.append(cmp_job(1, el, 2, 0, 4, 4, std=std)); js.append(cmp_job(3, el, 2, 0, 4, 4, std=std)); js.append(cmp_job(1, el, 2, 3, 2, 3, std=std)); js.append(cmp_job(3, el, 2, 3, 2, 3, std=std))
            js.append(cmp_job(2, el, 2, 2, 4, 2, std=std)); js.append(cmp_job(2, el, 0, 0, 3, 0, std=std)); js.append(cmp_job(2, el, 2, 3, 2, 4, std=std))
    return _nn(js)
REG['C16'] = Spec('C16', c16_jobs, tags=['C16'], memsafe=True, explanation=
    'Two containers (same and different inline capacity, inline and heap) with symbolic lengths <= capacity and unconstrained 32-bit contents: each of == != < <= > >= (and <=> at C++20/23, with and without concepts) '
    'equals a reference lexicographic comparison written in the harness; element types with operator<=> (int) and with only == and < (weak-order fallback). erase / erase_if: contents, order and returned count vs a model; '
    'non-member begin..crend, size, ssize, empty, data, swap agree with the members. All values, not a small alphabet: the solver decides for every pair of contents within the length bound.',
    bounds=lambda tier: {'lengths': '<= 4 per container', 'element_values': 'all 2^32', 'standards': 'C++17 and C++20 (quick); C++11..23 (thorough)'})

# ---------------------------------------------------------------- C18: noexcept / trait contract
from .jobs import nx_job
def c18_jobs(tier):
    js = []
    for std in (['c++11', 'c++17', 'c++20'] if tier == 'quick' else ['c++11', 'c++14', 'c++17', 'c++20', 'c++2b']):
        js.append(nx_job(std))
    js.append(nx_job('c++20', extra_clang=['-DGCH_DISABLE_CONCEPTS'], tag='-noconcepts'))
    EX = ['normal return', 'exceptional exit']
    # (a) truthfulness: faults at every element / allocation throw point, std::terminate must be unreachable;
    #     operations that are not noexcept must deliver the exception (witness)
    for op in ['move_ctor', 'move_assign', 'assign_move', 'swap']:
        for (na, nb, ca, cb) in ([(0, 0, 0, 2), (2, 2, 2, 4), (2, 2, 4, 2)] if tier == 'quick' else SAME_CELLS):
            for (afl, ideq) in ([(0, 1), (0, 0), (A_IAE, 0)] if tier == 'quick' else [(0, 1), (0, 0), (A_IAE, 0), (A_POCMA | A_POCS, 0)]):
                if op == 'move_ctor' and (afl, ideq) != (0, 1): continue
                if tier == 'quick' and op == 'swap' and (ca, cb) == (4, 2) and (afl, ideq) != (0, 0): continue
                js.append(two_job(op, 'TrX', na, nb, ca, cb, afl=afl, ideq=ideq, fmask=J.K_ALL, sizea=(2 if op == 'swap' and ca >= 2 else None)))
    for op in ['move_ctor', 'assign_move']:
        js.append(two_job(op, 'TrX', 3, 2, 3, 2, fmask=J.K_ALL, witness=EX, sizea=(1 if op == 'assign_move' else None))); js.append(two_job(op, 'TrX', 2, 3, 2, 3, fmask=J.K_ALL, witness=EX, sizea=(1 if op == 'assign_move' else None)))
    # allocation failure in cross-capacity move construction / assignment (nothrow-move element types: the element part cannot throw, the allocator can)
    for op in ['move_ctor', 'move_ctor_alloc', 'assign_move']:
        for (na, nb, ca, cb) in [(2, 3, 2, 3), (0, 2, 0, 2), (2, 3, 2, 5), (3, 2, 3, 3)]:
            js.append(two_job(op, 'int', na, nb, ca, cb, fmask=J.K_ALLOC)); js.append(two_job(op, 'int', na, nb, ca, cb, fmask=J.K_ALLOC, afl=A_IAE, ideq=0))
        js.append(two_job(op, 'Tr', 2, 3, 2, 3, fmask=J.K_ALL, sizea=(1 if op == 'assign_move' else None), sizeb=3))
    # nothrow move construction but throwing move assignment: move assignment between inline containers must let the exception out
    for op in ['move_assign', 'assign_move']:
        for (afl, ideq) in [(0, 1), (A_IAE, 0), (A_POCMA, 0)]:
            js.append(two_job(op, 'TrA', 2, 2, 2, 2, afl=afl, ideq=ideq, fmask=J.K_ALL, sizea=1, witness=EX)); js.append(two_job(op, 'TrA', 2, 2, 2, 2, afl=afl, ideq=ideq, fmask=J.K_ALL, sizea=2, sizeb=1, witness=EX))
    js.append(two_job('swap', 'TrA', 2, 2, 2, 2, fmask=J.K_ALL, sizea=1))
    # swap of element types with nothrow move and nothrow swap: the element part cannot throw, but with unequal non-propagating allocators the
    # reallocating branch allocates - the allocation failure must reach the caller (public swap is noexcept(false) there)
    for op in ['swap', 'nm_swap']:
        for (na, nb, ca, cb) in [(2, 2, 2, 4), (2, 2, 4, 2), (0, 0, 0, 2), (2, 2, 2, 2), (2, 2, 4, 5)]:
            js.append(two_job(op, 'int', na, nb, ca, cb, afl=0, ideq=0, fmask=J.K_ALLOC, witness=(EX if ca != cb else None)))
        js.append(two_job(op, 'Tr', 2, 2, 2, 4, afl=0, ideq=0, fmask=J.K_ALLOC, sizea=1, witness=EX))
        js.append(two_job(op, 'int', 2, 2, 2, 4, afl=A_POCMA, ideq=0, fmask=J.K_ALLOC))
    for op in ['push_back_c', 'insert_c', 'resize_v', 'reserve', 'emplace_back']:
        js.append(ops_job(op, 'TrX', 2, 4, fmask=J.K_ALL, witness=FAULT_W))
    for op in ['ctor_range', 'assign_range', 'insert_range', 'append_range']:
        for itk in (1, 2):
            js.append(rng_job(op, 'int', 2, 2 if op == 'ctor_range' else 4, itk=itk, fmask=K_ITER, witness=EX))
        js.append(rng_job(op, 'int', 2, 2 if op == 'ctor_range' else 4, itk=0, fmask=K_ITER, lenfix=2, witness=EX))
    js.append(rng_job('ctor_gen', 'int', 2, 2, fmask=J.K_GEN, witness=EX))
    js.append(rng_job('ctor_count_val', 'Tr', 2, 2, fmask=J.K_ALL, witness=EX)); js.append(rng_job('ctor_il', 'Tr', 2, 2, fmask=J.K_ALL, witness=EX))
    return _nn(js)
REG['C18'] = Spec('C18', c18_jobs, tags=['C18'], compile_failure_is_violation=True, explanation=
    '(a) truthfulness, decided by the solver: with faults injected at every allocation, element constructor/assignment, iterator operation and generator call (throw point = solver variable) std::terminate must be unreachable, '
    'i.e. nothing declared noexcept has a throwing path beneath it, and operations that are not noexcept deliver the injected exception to the caller (reachability witness). Grid: throwing-move element type, N in {0,2}, '
    'source capacity <,==,> destination, plain/unequal/always-equal/propagating allocators. (b) exactness of the declared conditions and the iterator / nested-type traits: compile-time constants evaluated by the C++ front end for '
    '8 element-trait combinations x N in {0,2} x 6 allocators at each language standard; the harness writes the documented formula next to noexcept(expr) and cbmc only compares the two constants (front-end decided; no more weight than a static_assert grid).',
    bounds=lambda tier: {'trait_grid': '{nothrow/throwing move ctor, move assign, swap} x N in {0,2} x {std::allocator, plain, always-equal, POCMA, POCS, POCMA+POCS}', 'standards': 'C++11/17/20 quick, C++11..23 thorough'})

# ---------------------------------------------------------------- C17: standard-independence
STDS = ['c++11', 'c++14', 'c++17', 'c++20', 'c++2b']
def c17_jobs(tier):
    js = []
    variants = [(s, (), '') for s in STDS] + [('c++20', ('-DGCH_DISABLE_CONCEPTS',), '-noconcepts')]
    for (std, xc, tg) in variants:
        ops = ['insert_n', 'push_back_c', 'emplace_back', 'erase_range', 'resize_v', 'assign_range', 'shrink', 'at', 'insert_il', 'append_range', 'reserve'] if tier == 'quick' else OPS_ALL
        for op in ops:
            for (n, cap) in ([(2, 4)] if tier == 'quick' else [(2, 2), (2, 4), (0, 2)]):
                js.append(ops_job(op, 'int', n, cap, std=std, extra_clang=xc, tag=tg))
        for op in ['push_back_c', 'erase_range', 'insert_n', 'pop_back']:   # inline representation (const-initialised observers: inlined() differs here if it is folded at compile time)
            js.append(ops_job(op, 'int', 2, 2, std=std, extra_clang=xc, tag=tg))
        for op in (['insert_n', 'push_back_c'] if tier == 'quick' else ['insert_n', 'push_back_c', 'resize_v', 'erase_range', 'assign_n', 'insert_c']):
            js.append(ops_job(op, 'Tr', 2, 4, std=std, extra_clang=xc, tag=tg))
        js.append(ops_job('push_back_c', 'TrX', 2, 4, fmask=J.K_ALL, std=std, extra_clang=xc, tag=tg, witness=FAULT_W))
        for op in ['move_assign', 'copy_assign', 'swap', 'move_ctor', 'assign_move']:
            js.append(two_job(op, 'int', 2, 2, 2, 4, std=std, extra_clang=xc, tag=tg))
            js.append(two_job(op, 'int', 2, 2, 4, 4, afl=A_IAE, ideq=0, std=std, extra_clang=xc, tag=tg))
        js.append(two_job('assign_move', 'int', 2, 3, 2, 5, std=std, extra_clang=xc, tag=tg))
        js.append(cmp_job(0, 'int', 2, 3, 4, 4, std=std, extra_clang=xc, tag=tg)); js.append(cmp_job(0, 'Tv', 2, 2, 4, 4, std=std, extra_clang=xc, tag=tg)); js.append(cmp_job(0, 'Tw', 2, 3, 4, 4, std=std, extra_clang=xc, tag=tg)); js.append(cmp_job(0, 'Tw', 2, 2, 2, 4, std=std, extra_clang=xc, tag=tg))
        js.append(cmp_job(1, 'int', 2, 0, 4, 4, std=std, extra_clang=xc, tag=tg)); js.append(cmp_job(2, 'int', 2, 2, 4, 2, std=std, extra_clang=xc, tag=tg))
        js.append(rng_job('ctor_range', 'int', 2, 2, itk=3, std=std, extra_clang=xc, tag=tg) if False else None)
    return _nn(js)
REG['C17'] = Spec('C17', c17_jobs, tags=['C01', 'C02', 'C03', 'C04', 'C05', 'C07', 'C09', 'C10', 'C14', 'C16'], level='translation_validation', compile_failure_is_violation=True, explanation=
    'The same harness configurations are compiled as C++11, 14, 17, 20 and 23 (and C++20 with GCH_DISABLE_CONCEPTS) and each build is decided by the solver against the SAME sequence model / reference comparison / steal conditions: '
    'any two standards therefore agree on every observable (contents, sizes, capacities, return values, exceptions) for all inputs within the bound. Only clang can feed the IR pipeline; the GCC half of the property is outside the claim '
    '(the native replay/validation binaries are also built with g++, which is sampling and is not counted).',
    bounds=lambda tier: {'standards': STDS + ['c++20 -DGCH_DISABLE_CONCEPTS'], 'compiler': 'clang++-14 only (GCC code cannot be encoded: no IR)'},
    level_text='translation-validation style: each language-standard build of the same program is decided (bounded, by cbmc) equivalent to one common model, hence to each other')

# ---------------------------------------------------------------- C13: bulk-copy fast paths unobservable; conversions are value conversions
from .jobs import conv_job
CONV_PAIRS = [('int', 'unsigned'), ('unsigned', 'int'), ('short', 'int'), ('int', 'short'), ('unsigned char', 'int'), ('int', 'unsigned char'),
              ('signed char', 'unsigned char'), ('char', 'signed char'), ('bool', 'int'), ('int', 'bool'), ('unsigned char', 'bool'), ('bool', 'unsigned char'),
              ('UEnum', 'unsigned'), ('UEnum', 'int'), ('SmallEnum', 'unsigned char'), ('int', 'long long'), ('long', 'long long'), ('unsigned long long', 'long'),
              ('float', 'int'), ('int', 'float'), ('double', 'int'), ('double', 'float')]
PTR_PAIRS = [('Derived*', 'Base1*'), ('Derived*', 'Base2*'), ('Derived*', 'void*'), ('Derived*', 'const Derived*'), ('Base2*', 'const void*'), ('Base2*', 'const Base2*')]
def c13_jobs(tier):
    js = []
    # (i) twin: the trivially copyable twin of the instrumented type against the same model (bulk-copy paths), exact-size blocks as red zones
    for op in OPS_ALL:
        for (n, cap) in ([(2, 2), (2, 4)] if tier == 'quick' else cells(tier)):
            if cap == n and cap > 0:
                # inline representation of a struct element: the element buffer aliases the container object; pin the size (measured: > 10 GB otherwise)
                for sz in range(0, cap + 1):
                    if sz == 0 and op in ('insert_il', 'resize'): continue   # measured: > 10 GB; sizes 1..N cover the same code
                    js.append(ops_job(op, 'Tv', n, cap, maxcnt=2 if tier == 'quick' else 3, size=sz))
            else:
                js.append(ops_job(op, 'Tv', n, cap, maxcnt=2 if tier == 'quick' else 3))
    for op in ['copy_ctor', 'move_ctor', 'copy_assign', 'move_assign', 'swap', 'assign_copy', 'assign_move', 'append_copy', 'append_move']:
        for (na, nb, ca, cb) in ([(2, 2, 2, 4), (2, 2, 4, 2), (2, 3, 2, 5)] if tier == 'quick' else SAME_CELLS + CROSS_CELLS):
            if op.startswith('append') and ca == na and ca > 0:
                for sz in range(0, ca + 1): js.append(two_job(op, 'Tv', na, nb, ca, cb, sizea=sz))
            else:
                js.append(two_job(op, 'Tv', na, nb, ca, cb))
        js.append(two_job(op, 'Tv', 2, 2, 4, 4, ideq=0))
    for op in ['ctor_range', 'assign_range', 'insert_range', 'append_range', 'ctor_count', 'ctor_count_val', 'ctor_il']:
        js.append(rng_job(op, 'Tv', 2, 2 if op.startswith('ctor') else 4, itk=3)); js.append(rng_job(op, 'Tv', 2, 2 if op.startswith('ctor') else 4, itk=1))
    # (ii) conversions
    for (s, d) in CONV_PAIRS:
        for via in ((0, 1, 2) if tier != 'quick' else ((0, 2) if (s, d) in (('int', 'unsigned'), ('long', 'long long'), ('short', 'int'), ('float', 'int')) else (0,))):
            for part in (1, 2, 3, 4):
                if part == 2 and ('long' in s and 'long' in d): continue   # measured: > 10 GB for 64-bit to 64-bit insert; covered by parts 1, 3, 4
                if part == 3 and via != 0: continue
                js.append(conv_job(s, d, via=via, part=part))
        if tier == 'quick': js.append(conv_job(s, d, via=1, part=1))
    for (s, d) in PTR_PAIRS:
        for via in (0, 2):
            for part in (1, 3, 4) if tier == 'quick' else (1, 2, 3, 4):
                if part == 3 and via != 0: continue
                js.append(conv_job(s, d, via=via, ptr=1, part=part))
    # (iii) minimal-requirement archetype: trivially copyable but not assignable, and its non-trivial twin
    from .jobs import arch_job
    for n in (0, 2):
        for std in (('c++17',) if tier == 'quick' else ('c++11', 'c++17', 'c++20')):
            js.append(arch_job(1, n, std)); js.append(arch_job(0, n, std))
    # (i') trivial element types whose T() is not all-zero bytes (pointer to data member, aggregate holding one) + control: value-initialisation and fill shortcuts
    from .jobs import vinit_job
    for vt in (0, 1, 2):
        for n in ((0, 2) if tier == 'quick' else (0, 1, 2, 3)):
            for sa in (1, 0):
                for std in (('c++17',) if tier == 'quick' else ('c++11', 'c++17', 'c++20')):
                    light = tier == 'quick' and (sa == 0 or vt == 2)
                    if vt == 2 and tier == 'quick' and (sa == 0 or n == 0): continue
                    js.append(vinit_job(vt, n, sa, std, 1))
                    if not light and vt != 1: js.append(vinit_job(vt, n, sa, std, 2))   # count/value ctor + assign(n, v); measured: > 10 GB for the aggregate
                    for part in (3, 4, 5):
                        for pre in (0, 1, 2):
                            if light and (part, pre) != (3, 1): continue
                            if part == 3 and pre == 0 and n > 0: continue   # measured: > 10 GB; resize from empty is the count constructor's path (part 1) plus pre = 1, 2
                            js.append(vinit_job(vt, n, sa, std, part, pre))
    for std in ('c++20',):
        for (s, d) in [('long', 'long long'), ('int', 'unsigned'), ('short', 'int')]:
            js.append(conv_job(s, d, via=0, part=1, std=std)); js.append(conv_job(s, d, via=1, part=4, std=std))
    return _nn(js)
REG['C13'] = Spec('C13', c13_jobs, tags=['C13', 'C01'], memsafe=True, compile_failure_is_violation=True, explanation=
    '(i) the trivially copyable twin Tv of the instrumented element type is driven through the same one-step harnesses against the same sequence model as Tr (C01), so memcpy/memmove/fill shortcuts change no result; '
    'heap blocks are exact-size objects, so any access outside the elements\' storage is a cbmc bounds violation (typed-loop lowering of memcpy keeps those checks exact). '
    'A pointer-to-data-member element type (null is -1, not zero bytes), an aggregate holding one and a long long control go through count construction, count/value construction, assign(n,v), resize(n), resize(n,v) and emplace_back() with std::allocator (no construct member) and vf_alloc: every value-initialised element equals T(), every filled element the value. '
    '(ii) construct / assign / insert / append / emplace from a contiguous range (raw pointers and small_vector iterators: what selects the bulk-copy path) and from forward iterators of a DIFFERENT source type: every stored '
    'element must equal static_cast<T>(source) for all source values: integral pairs of equal and different width and signedness, bool, enums, char kinds, floating point, pointer pairs including Derived* -> second base (offset adjustment), void*. '
    'A source/destination pair that the generic path accepts but that does not compile on the bulk-copy path is reported as a violation (front-end decided).',
    bounds=lambda tier: {'conversion_range_length': '<= 3 (2 for insert)', 'source_values': 'all 2^32 inputs mapped into the source type', 'archetypes': 'one archetype pair (trivially copyable / non-trivial, both non-assignable) over the construction-only operations; the full per-operation archetype grid is not built'})

# ---------------------------------------------------------------- C08: constant evaluation (forced at run time)
def c08_jobs(tier):
    js = []
    ops = [op for op in OPS_ALL]
    for op in ops:
        for (n, cap) in ([(2, 2), (2, 4), (0, 0)] if tier == 'quick' else cells(tier)):
            js.append(ops_job(op, 'int', n, cap, ce=True, maxcnt=2 if tier == 'quick' else 3))
    if tier == 'quick':
        # a larger buffer with counts up to 3 for the shifting operations (tails of 2 or more elements next to counts of 2..3), as in C01's grid
        for op in ['insert_n', 'insert_range', 'insert_il', 'insert_c', 'emplace', 'erase_range', 'assign_n', 'resize_v']:
            js.append(ops_job(op, 'int', 2, 6, ce=True, maxcnt=3)); js.append(ops_job(op, 'int', 0, 5, ce=True, maxcnt=3))
    for op in (['push_back_c', 'insert_c', 'insert_n', 'resize_v', 'erase_range', 'assign_n', 'emplace_back', 'shrink', 'reserve'] if tier == 'quick' else ops):
        if op in ('at', 'access'): continue
        for (n, cap) in ([(2, 2)] if tier == 'quick' else [(2, 2), (2, 4), (0, 2)]):
            js.append(ops_job(op, 'Tr', n, cap, ce=True))
    for op in OPS_ALIAS:
        js.append(ops_job(op, 'int', 2, 4, alias=1, ce=True))
        if tier != 'quick': js.append(ops_job(op, 'Tr', 2, 2, alias=1, ce=True))
    # two-container operations under forced constant evaluation (contents, lifetimes, no unreleased allocation; capacity/inlined()/moved-from contents are not compared)
    for op in ['copy_ctor', 'move_ctor', 'copy_assign', 'move_assign', 'swap', 'assign_copy', 'assign_move', 'append_copy', 'append_move']:
        for (na, nb, ca, cb) in [(2, 2, 2, 4), (2, 2, 4, 2), (2, 3, 2, 5), (3, 2, 3, 3)]:
            js.append(two_job(op, 'int', na, nb, ca, cb, ce=True, followup=0))
    for op in ['move_assign', 'copy_assign', 'assign_move']:
        js.append(two_job(op, 'Tr', 2, 2, 2, 4, ce=True)); js.append(two_job(op, 'Tr', 2, 2, 4, 2, ce=True, sizea=1))
    # the same configurations in the ordinary run-time build carry the C08 growth-capacity assertion too (both builds equal the same rule)
    for op in OPS_GROW:
        js.append(ops_job(op, 'int', 2, 4, std='c++20'))
    return _nn(js)
REG['C08'] = Spec('C08', c08_jobs, tags=['C08', 'C01', 'C03'], memsafe=True, level='other', explanation=
    'PARTIAL. What a solver can reach of this property is the set of code paths selected by std::is_constant_evaluated(): the harness TU includes the standard headers, then defines is_constant_evaluated as a constexpr function returning true, '
    'then includes the header, so every constant-evaluation branch (always-heap storage, heap_temporary, element-wise copies instead of memcpy/fill, move_iterator work-arounds) is compiled as ordinary C++20 code and encoded. '
    'The one-container harnesses are re-run on this forced build: sizes, element values, returned positions/references equal the same sequence model as the run-time build (hence equal to it), the capacity after growth equals the header\'s '
    'mode-independent growth rule applied to the same state and request in BOTH builds, the allocation ledger is empty at the end (no unreleased allocation) and the only live block after each operation is the container\'s buffer, '
    'and cbmc\'s pointer / bounds / lifetime checks plus the element-lifetime hooks stand in for "no UB / out-of-lifetime access". inlined(), moved-from contents and capacity after move/swap are not compared, as the property allows. '
    'NOT decided: whether GCC\'s and Clang\'s constant evaluators accept the expressions (reinterpret_cast, construct_at, transient allocation, step limits) - a property of those evaluators, outside any solver over IR; the compilers\' evaluators are not exercised.',
    assumptions=['forcing std::is_constant_evaluated() to true at run time represents the constant-evaluation code paths faithfully (same templates, same branches); the evaluators\' own acceptance rules are not modelled'],
    level_text='bounded symbolic checking of the constant-evaluation code paths forced at run time; the compilers\' constant evaluators themselves are outside the technique (partial claim)')

# ---------------------------------------------------------------- C19: default inline capacity / layout (z3)
def c19_custom(pid, tier, seed, args):
    import subprocess, os
    env = dict(os.environ, VERIF_TIER=tier, VERIF_SEED=str(seed))
    return subprocess.run(['python3-vt', os.path.join(os.path.dirname(os.path.dirname(os.path.abspath(__file__))), 'tools', 'c19.py'), '--tier', tier], env=env).returncode
REG['C19'] = Spec('C19', None, level='other', custom=c19_custom, engine='z3-layout', explanation=
    'z3 over the default_buffer_size formula extracted from the header source on every run and an Itanium-ABI layout model of the container object that is validated on every run against sizeof/alignof/offsets of ~400 concrete instantiations compiled with clang++ and g++; '
    'counterexamples are replayed as static_assert programs. Holds for every stateless allocator with a pointer-wide size_type (the std::allocator case) at any element size/alignment; two violation classes are recorded as known findings.',
    level_text='solver (z3) decision over an extracted formula and a compiler-validated layout model; not a proof about the compilers\' layout algorithm',
    level_note='trusted: the layout model (validated per run on ~400 instantiations against clang++-14 and g++ 12), z3; domain sizeof(T) 1..72, alignof 1..64, allocator state 0..24 bytes, size_type 1/2/4/8 bytes',
    technique='z3 bit-vector queries over a source-extracted formula + compiler-validated class layout model')
