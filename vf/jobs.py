"""Job grids per property and tier."""
from .engine import Job, ELEM_IR

K_ALLOC, K_COPY, K_MOVE, K_CASSIGN, K_MASSIGN, K_DEFAULT, K_DEREF, K_INC, K_CMP, K_GEN, K_VALUE = 1, 2, 4, 8, 16, 32, 64, 128, 256, 512, 1024
A_MAXSZ_ = 32
K_ALL_ELEM = K_COPY | K_MOVE | K_CASSIGN | K_MASSIGN | K_DEFAULT | K_VALUE
K_ALL = K_ALLOC | K_ALL_ELEM

OPS_ALL = ['push_back_c', 'push_back_m', 'emplace_back', 'pop_back', 'insert_c', 'insert_m', 'emplace', 'insert_n',
           'insert_range', 'insert_il', 'erase1', 'erase_range', 'resize', 'resize_v', 'assign_n', 'assign_range',
           'assign_il', 'assign_op_il', 'clear', 'reserve', 'shrink', 'append_range', 'append_il', 'at', 'access']
OPS_GROW = ['push_back_c', 'push_back_m', 'emplace_back', 'insert_c', 'insert_m', 'emplace', 'insert_n', 'insert_range',
            'insert_il', 'resize', 'resize_v', 'assign_n', 'assign_range', 'assign_il', 'assign_op_il', 'reserve',
            'append_range', 'append_il']
OPS_STRONG = ['push_back_c', 'push_back_m', 'emplace_back', 'insert_c', 'insert_m', 'emplace', 'reserve', 'resize',
              'resize_v', 'shrink', 'append_range', 'append_il', 'insert_n', 'insert_range', 'insert_il']   # the last three: one element at end()
OPS_NEED_COPY = {'push_back_c', 'insert_c', 'insert_n', 'insert_range', 'insert_il', 'resize_v', 'assign_n', 'assign_range',
                 'assign_il', 'assign_op_il', 'append_range', 'append_il', 'emplace'}
OPS_ALIAS = ['push_back_c', 'emplace_back', 'insert_c', 'insert_n', 'emplace', 'resize_v']

def ops_job(op, elem, n, cap, fmask=0, alias=0, afl=0, maxcnt=2, size=None, std='c++17', extra_defs=None, witness=None, tag='', maxsz=None, sizet=None, extra_clang=(), ce=False, bigcnt=False):
    maxcap = max(2 * cap, cap + maxcnt + 2, 2)
    maxm = cap + maxcnt + 2
    defs = {'VF_ELEM': elem, 'VF_N': n, 'VF_CAP': cap, 'VF_OP': 'OP_' + op, 'VF_FMASK': fmask, 'VF_ALIAS': alias,
            'VF_AFL': afl, 'VF_MAXCNT': maxcnt, 'VF_MAXCAP': maxcap}
    if size is not None: defs['VF_SIZE'] = size
    if maxsz is not None: defs['VF_MAXSZ'] = maxsz; defs['VF_AFL'] = afl | A_MAXSZ_; tag += '-M%d' % maxsz
    if sizet is not None: defs['VF_SIZET'] = sizet; tag += '-' + sizet.replace('std::', '').replace('_t', '')
    if elem == 'Pz': defs['VF_USE_PZ'] = 1
    if bigcnt: defs['VF_BIGCNT'] = 1; tag += '-bigcnt'
    if op.endswith('_il') and elem != 'int' and fmask and not (extra_defs and 'VF_B' in extra_defs):
        defs['VF_B'] = 2; tag += '-b2'   # initializer-list ops instantiate one call site per length: pin the length when faults are on
    if extra_defs: defs.update(extra_defs)
    minalloc = n + 1; maxalloc = maxcap; allocmask = None
    if op == 'shrink': minalloc = 0   # let a (wrong) request for <= N elements through so that the resulting state is judged by the invariants
    if ce:
        # forced constant evaluation: every buffer (also the N-element 'inline' one and heap_temporary's sizeof(T)-element block) comes from the allocator
        defs['VF_FORCE_CONSTANT_EVALUATED'] = 1; std = 'c++20' if std == 'c++17' else std; tag += '-ce'; minalloc = 0
        esz = {'int': 4, 'unsigned char': 1}.get(elem, 16)
        maxalloc = max(maxcap, esz); allocmask = ((1 << (maxcap + 1)) - 1) | (1 << esz)
    name = 'ops-%s-%s-N%d-c%d%s%s%s%s%s' % (op, elem.replace(' ', ''), n, cap, '-f%d' % fmask if fmask else '', '-alias' if alias else '',
                                          '-a%d' % afl if afl else '', '-s%d' % size if size is not None else '', tag)
    if std != 'c++17': name += '-' + std.replace('+', 'p')
    if (cap == 0 or size == 0) and op in ('pop_back', 'erase1'): return None   # no valid pre-state: these need size >= 1
    w = ['normal return'] if witness is None else witness
    if op == 'shrink' and cap == n: w = [x for x in w if 'exceptional' not in x]   # inline: nothing can throw
    if op == 'at': w = ['out_of_range exit'] + (['normal return'] if (cap > 0 and size != 0) else [])
    return Job(name, 'ops', defs, elems=[ELEM_IR[elem]], std=std, unwind=max(maxcap, maxm, 6) + 2, maxalloc=maxalloc,
               minalloc=minalloc, expect_witness=w, allocmask=allocmask, extra_clang=list(extra_clang),
               desc='%s on small_vector<%s,%d> from any state with capacity %d%s%s' % (op, elem, n, cap, ' (inline)' if cap == n else ' (heap)',
                    ', faults kinds=%d' % fmask if fmask else ''))

def cells(tier):
    """(N, CAP) cells: CAP == N is the inline representation"""
    if tier == 'quick': return [(0, 0), (0, 2), (2, 2), (2, 4)]
    return [(0, 0), (0, 1), (0, 3), (0, 5), (1, 1), (1, 2), (2, 2), (2, 3), (2, 4), (2, 6), (3, 3), (3, 5)]

def elem_supports(elem, op):
    if elem in ('TrM', 'TrMX') and op in OPS_NEED_COPY: return False
    return True

A_POCCA, A_POCMA, A_POCS, A_IAE, A_SOCC, A_MAXSZ, A_NOTHROW = 1, 2, 4, 8, 16, 32, 64
OPS2_ALL = ['copy_ctor', 'move_ctor', 'copy_ctor_alloc', 'move_ctor_alloc', 'copy_assign', 'move_assign', 'swap', 'nm_swap',
            'assign_copy', 'assign_move', 'append_copy', 'append_move']
OPS2_SAME_N = {'swap', 'nm_swap', 'copy_assign', 'move_assign', 'copy_ctor', 'move_ctor', 'copy_ctor_alloc', 'move_ctor_alloc'}

def two_job(op, elem, na, nb, capa, capb, afl=0, ideq=1, fmask=0, nfaults=1, std='c++17', witness=None, extra_defs=None, tag='', followup=None, sizea=None, sizeb=None, extra_clang=(), ce=False):
    if op in ('swap', 'nm_swap', 'copy_assign', 'move_assign') and na != nb: return None   # same-type only
    ctor = op.endswith('ctor') or op.endswith('ctor_alloc')
    if ctor: capa = na
    if followup is None: followup = 0 if elem.startswith('Tr') else 1
    maxcap = (2 * max(capa + capb, 2 * max(capa, capb)) + 2) if followup else max(2 * max(capa, capb), capa + capb, 2) + 2
    defs = {'VF_FOLLOWUP': followup, 'VF_ELEM': elem, 'VF_NA': na, 'VF_NB': nb, 'VF_CAPA': capa, 'VF_CAPB': capb, 'VF_OP': 'OP_' + op, 'VF_AFL': afl,
            'VF_IDEQ': ideq, 'VF_FMASK': fmask, 'VF_NFAULTS': nfaults, 'VF_MAXCAP': maxcap}
    minalloc = min(na, nb) + 1; maxalloc = maxcap; allocmask = None
    if ce:
        defs['VF_FORCE_CONSTANT_EVALUATED'] = 1; std = 'c++20' if std == 'c++17' else std; tag += '-ce'; minalloc = 0
        esz = {'int': 4, 'unsigned char': 1}.get(elem, 16); maxalloc = max(maxcap, esz); allocmask = ((1 << (maxcap + 1)) - 1) | (1 << esz)
    if sizea is not None: defs['VF_SIZEA'] = sizea; tag += '-sa%d' % sizea
    if sizeb is not None: defs['VF_SIZEB'] = sizeb; tag += '-sb%d' % sizeb
    if extra_defs: defs.update(extra_defs)
    name = 'two-%s-%s-N%d.%d-c%d.%d-a%d-%s%s%s' % (op, elem, na, nb, capa, capb, afl, 'eq' if ideq else 'ne', '-f%d' % fmask if fmask else '', tag)
    if std != 'c++17': name += '-' + std.replace('+', 'p')
    w = ['normal return'] if witness is None else witness
    return Job(name, 'two', defs, elems=[ELEM_IR[elem]], std=std, unwind=max(maxcap, 6) + 2, maxalloc=maxalloc, minalloc=minalloc, allocmask=allocmask,
               expect_witness=w, extra_clang=list(extra_clang),
               desc='%s: small_vector<%s,%d> (cap %d) <- small_vector<%s,%d> (cap %d), allocator flags %d, ids %s%s' % (
                   op, elem, na, capa, elem, nb, capb, afl, 'equal' if ideq else 'unequal', ', faults kinds=%d' % fmask if fmask else ''))

def kern_job(sizet, kn=0, esz=1, std='c++17'):
    defs = {'VF_SIZET': sizet, 'VF_KN': kn, 'VF_ESZ': esz}
    name = 'kern-%s-N%d-e%d' % (sizet.replace('std::', '').replace(' ', ''), kn, esz) + ('' if std == 'c++17' else '-' + std.replace('+', 'p'))
    return Job(name, 'kern', defs, elems=[], std=std, unwind=8, maxalloc=4, minalloc=0,
               expect_witness=['growth kernel reached', 'length_error reached'],
               desc='size arithmetic kernels for size_type=%s, inline capacity %d, element size %d: all 64-bit values of size/capacity/required/count/max_size' % (sizet, kn, esz))

RNG_OPS = ['ctor_range', 'assign_range', 'insert_range', 'append_range', 'ctor_count', 'ctor_count_val', 'ctor_gen', 'ctor_il']
ITK_NAME = {0: 'input', 1: 'forward', 2: 'random', 3: 'pointer'}
def rng_job(op, elem, n, cap, itk=0, fmask=0, nfaults=1, maxsz=None, length=3, afl=0, sizet=None, std='c++17', witness=None, extra_defs=None, tag='', lenfix=None, sizefix=None):
    ctor = op.startswith('ctor')
    if ctor: cap = n
    if not ctor and cap == 0 and op == 'x': return None
    maxcap = max(2 * cap, cap + length + 2, 2)
    if itk == 0 and op in ('ctor_range', 'assign_range', 'insert_range', 'append_range'):
        def grow(c, need):   # single pass: repeated doubling, one element at a time
            while c < need: c = max(2 * c, c + 1)
            return c
        maxcap = max(grow(cap, cap + length), grow(n, length), 2 * cap, cap + length + 2)
    defs = {'VF_ELEM': elem, 'VF_N': n, 'VF_CAP': cap, 'VF_OP': 'OP_' + op, 'VF_ITK': itk, 'VF_FMASK': fmask, 'VF_NFAULTS': nfaults,
            'VF_LEN': length, 'VF_AFL': afl, 'VF_MAXCAP': maxcap}
    if maxsz is not None: defs['VF_MAXSZ'] = maxsz; defs['VF_AFL'] = afl | A_MAXSZ_; tag += '-M%d' % maxsz
    if sizet is not None: defs['VF_SIZET'] = sizet; tag += '-' + sizet.replace('std::', '').replace('_t', '')
    if lenfix is not None: defs['VF_LENFIX'] = lenfix; tag += '-len%d' % lenfix
    if sizefix is not None: defs['VF_SIZEFIX'] = sizefix; tag += '-sz%d' % sizefix
    if extra_defs: defs.update(extra_defs)
    uses_range = op in ('ctor_range', 'assign_range', 'insert_range', 'append_range')
    name = 'rng-%s-%s-N%d-c%d%s%s%s' % (op, elem, n, cap, '-' + ITK_NAME[itk] if uses_range else '', '-f%d' % fmask if fmask else '', tag)
    if std != 'c++17': name += '-' + std.replace('+', 'p')
    w = ['normal return'] if witness is None else witness
    return Job(name, 'rng', defs, elems=[ELEM_IR[elem]], std=std, unwind=max(maxcap, cap + length + 2, 6) + 2, maxalloc=maxcap, minalloc=n + 1,
               expect_witness=w, desc='%s%s on small_vector<%s,%d>%s, length <= %d%s' % (op, ' (%s iterators)' % ITK_NAME[itk] if uses_range else '', elem, n,
                    '' if ctor else ' from any state with capacity %d' % cap, length, ', faults kinds=%d' % fmask if fmask else ''))

def cmp_job(part, elem, na, nb, capa, capb, std='c++17', extra_clang=(), tag=''):
    maxcap = max(capa, capb, 2) + 2
    defs = {'VF_PART': part, 'VF_ELEM': elem, 'VF_NA': na, 'VF_NB': nb, 'VF_CAPA': capa, 'VF_CAPB': capb, 'VF_MAXCAP': maxcap}
    name = 'cmp-p%d-%s-N%d.%d-c%d.%d%s' % (part, elem, na, nb, capa, capb, tag) + ('' if std == 'c++17' else '-' + std.replace('+', 'p'))
    return Job(name, 'cmp', defs, elems=[ELEM_IR[elem]], std=std, unwind=max(maxcap, 6) + 2, maxalloc=maxcap, minalloc=min(na, nb) + 1,
               expect_witness=['normal return'], extra_clang=list(extra_clang),
               desc='%s: small_vector<%s,%d> (cap %d) vs small_vector<%s,%d> (cap %d), all lengths <= capacity and all 2^32 element values, %s' % (
                   {0: 'relational operators', 1: 'erase(v,x)', 3: 'erase_if(v,pred)', 2: 'non-member begin..data, size, ssize, swap'}[part], elem, na, capa, elem, nb, capb, std))

def nx_job(std='c++17', extra_clang=(), tag=''):
    name = 'nx-' + std.replace('+', 'p') + tag
    return Job(name, 'nx', {}, elems=[], std=std, unwind=4, maxalloc=2, minalloc=0, expect_witness=['normal return'], extra_clang=list(extra_clang),
               desc='noexcept / iterator / nested-type table: 8 element trait combinations x N in {0,2} x 6 allocators x 15 facts, %s' % std)

CONV_IR = {'int': 'i32', 'unsigned': 'i32', 'short': 'i16', 'unsigned short': 'i16', 'signed char': 'i8', 'unsigned char': 'i8', 'char': 'i8',
           'bool': 'i8', 'long long': 'i64', 'unsigned long long': 'i64', 'long': 'i64', 'unsigned long': 'i64', 'float': 'float', 'double': 'double',
           'UEnum': 'i32', 'SEnum': 'i32', 'SmallEnum': 'i8', 'Derived*': '%struct.Derived*', 'Base1*': '%struct.Base1*', 'Base2*': '%struct.Base2*',
           'void*': 'i8*', 'const void*': 'i8*', 'const Derived*': '%struct.Derived*', 'const Base2*': '%struct.Base2*'}
VIA_NAME = {0: 'pointer', 1: 'sviter', 2: 'forward'}
def conv_job(src, dst, via=0, ptr=0, n=2, std='c++17', part=0):
    defs = {'VF_SRC': src, 'VF_DST': dst, 'VF_VIA': via, 'VF_PTR': ptr, 'VF_N': n, 'VF_MAXCAP': 12, 'VF_PART': part, 'VF_CLEN': 2 if part == 2 else 3}
    nm = lambda t: t.replace(' ', '_').replace('*', 'P')
    name = 'conv-%s-to-%s-%s-N%d-p%d' % (nm(src), nm(dst), VIA_NAME[via], n, part) + ('' if std == 'c++17' else '-' + std.replace('+', 'p'))
    return Job(name, 'conv', defs, elems=[CONV_IR[dst], CONV_IR[src]], std=std, unwind=10, maxalloc=8, minalloc=n + 1, expect_witness=['normal return'],
               desc='conversion %s -> %s via %s range, construct/assign/insert/append/emplace, all source values' % (src, dst, VIA_NAME[via]))

VINIT_T = {0: ('memptr', 'i64'), 1: ('memptr-aggregate', '%struct.Ag'), 2: ('longlong', 'i64')}
def vinit_job(vt, n=2, stdalloc=1, std='c++17', part=1, pre=None):
    defs = {'VF_VT': vt, 'VF_N': n, 'VF_MAXCAP': 16, 'VF_PART': part}
    if pre is not None: defs['VF_PRE'] = pre
    if stdalloc: defs['VF_STDALLOC'] = 1
    name = 'vinit-%s-N%d-%s-p%d%s' % (VINIT_T[vt][0], n, 'stdalloc' if stdalloc else 'vfalloc', part, '' if pre is None else '-pre%d' % pre) + ('' if std == 'c++17' else '-' + std.replace('+', 'p'))
    return Job(name, 'vinit', defs, elems=[VINIT_T[vt][1]], std=std, unwind=12, maxalloc=16, minalloc=n + 1 if n else 1, expect_witness=['normal return'],
               desc='value-initialisation / fill shortcuts for a trivial element type whose T() is not all-zero bytes (%s): count ctor, count/value ctor, assign(n,v), resize(n), resize(n,v), emplace_back(); counts and resize targets <= 3, 0..2 elements present before (pinned per job), all values' % VINIT_T[vt][0])

def arch_job(triv, n=2, std='c++17'):
    name = 'arch-%s-N%d' % ('trivial' if triv else 'nontrivial', n) + ('' if std == 'c++17' else '-' + std.replace('+', 'p'))
    return Job(name, 'arch', {'VF_TRIV': triv, 'VF_N': n, 'VF_MAXCAP': 16}, elems=['%struct.El'], std=std, unwind=18, maxalloc=16, minalloc=n + 1 if n else 1,
               expect_witness=['normal return'], desc='non-assignable %s archetype: operations that only need construction (count ctor, emplace_back, push_back, reserve, copy/move ctor, shrink_to_fit, pop_back, clear)' % ('trivially copyable' if triv else 'non-trivial'))

def std_two_job(op, elem, na, nb, capa, capb, **kw):
    j = two_job(op, elem, na, nb, capa, capb, extra_defs={'VF_STDALLOC': 1}, tag='-stdalloc', **kw)
    return j
def std_ops_job(op, elem, n, cap, **kw):
    return ops_job(op, elem, n, cap, extra_defs={'VF_STDALLOC': 1}, tag='-stdalloc', **kw)
