"""Job grids per property and tier."""
from .engine import Job, ELEM_IR

K_ALLOC, K_COPY, K_MOVE, K_CASSIGN, K_MASSIGN, K_DEFAULT, K_DEREF, K_INC, K_CMP, K_GEN, K_VALUE = 1, 2, 4, 8, 16, 32, 64, 128, 256, 512, 1024
K_ALL_ELEM = K_COPY | K_MOVE | K_CASSIGN | K_MASSIGN | K_DEFAULT | K_VALUE
K_ALL = K_ALLOC | K_ALL_ELEM

OPS_ALL = ['push_back_c', 'push_back_m', 'emplace_back', 'pop_back', 'insert_c', 'insert_m', 'emplace', 'insert_n',
           'insert_range', 'insert_il', 'erase1', 'erase_range', 'resize', 'resize_v', 'assign_n', 'assign_range',
           'assign_il', 'assign_op_il', 'clear', 'reserve', 'shrink', 'append_range', 'append_il', 'at', 'access']
OPS_GROW = ['push_back_c', 'push_back_m', 'emplace_back', 'insert_c', 'insert_m', 'emplace', 'insert_n', 'insert_range',
            'insert_il', 'resize', 'resize_v', 'assign_n', 'assign_range', 'assign_il', 'assign_op_il', 'reserve',
            'append_range', 'append_il']
OPS_STRONG = ['push_back_c', 'push_back_m', 'emplace_back', 'insert_c', 'insert_m', 'emplace', 'reserve', 'resize',
              'resize_v', 'shrink', 'append_range', 'append_il']
OPS_NEED_COPY = {'push_back_c', 'insert_c', 'insert_n', 'insert_range', 'insert_il', 'resize_v', 'assign_n', 'assign_range',
                 'assign_il', 'assign_op_il', 'append_range', 'append_il', 'emplace'}
OPS_ALIAS = ['push_back_c', 'emplace_back', 'insert_c', 'insert_n', 'emplace', 'resize_v']

def ops_job(op, elem, n, cap, fmask=0, alias=0, afl=0, maxcnt=2, size=None, std='c++17', extra_defs=None, witness=None, tag=''):
    maxcap = max(2 * cap, cap + maxcnt + 2, 2)
    maxm = cap + maxcnt + 2
    defs = {'VF_ELEM': elem, 'VF_N': n, 'VF_CAP': cap, 'VF_OP': 'OP_' + op, 'VF_FMASK': fmask, 'VF_ALIAS': alias,
            'VF_AFL': afl, 'VF_MAXCNT': maxcnt, 'VF_MAXCAP': maxcap}
    if size is not None: defs['VF_SIZE'] = size
    if extra_defs: defs.update(extra_defs)
    name = 'ops-%s-%s-N%d-c%d%s%s%s%s%s' % (op, elem.replace(' ', ''), n, cap, '-f%d' % fmask if fmask else '', '-alias' if alias else '',
                                          '-a%d' % afl if afl else '', '-s%d' % size if size is not None else '', tag)
    if std != 'c++17': name += '-' + std.replace('+', 'p')
    if cap == 0 and op in ('pop_back', 'erase1'): return None   # no valid pre-state: these need size >= 1
    w = ['normal return'] if witness is None else witness
    if op == 'shrink' and cap == n: w = [x for x in w if 'exceptional' not in x]   # inline: nothing can throw
    if op == 'at': w = ['out_of_range exit'] + (['normal return'] if cap > 0 else [])
    return Job(name, 'ops', defs, elems=[ELEM_IR[elem]], std=std, unwind=max(maxcap, maxm, 6) + 2, maxalloc=maxcap,
               minalloc=n + 1, expect_witness=w,
               desc='%s on small_vector<%s,%d> from any state with capacity %d%s%s' % (op, elem, n, cap, ' (inline)' if cap == n else ' (heap)',
                    ', faults kinds=%d' % fmask if fmask else ''))

def cells(tier):
    """(N, CAP) cells: CAP == N is the inline representation"""
    if tier == 'quick': return [(0, 0), (0, 2), (2, 2), (2, 4)]
    return [(0, 0), (0, 1), (0, 3), (1, 1), (1, 2), (2, 2), (2, 3), (2, 4), (3, 3), (3, 5)]

def elem_supports(elem, op):
    if elem in ('TrM', 'TrMX') and op in OPS_NEED_COPY: return False
    return True
