"""Job engine: harness .cpp --clang--> LLVM IR --ll2c--> C --cbmc--> verdicts; native replay; validation."""
import os, sys, json, re, subprocess, hashlib, time, resource, random, shutil, concurrent.futures as cf

VERIF = os.path.dirname(os.path.dirname(os.path.abspath(__file__)))
REPO = os.environ.get('VERIF_REPO', '/repo')
HDR_DIR = os.path.join(REPO, 'source', 'include')
HDR = os.path.join(HDR_DIR, 'gch', 'small_vector.hpp')
BUILD = os.path.join(VERIF, 'build')
CACHE = os.path.join(BUILD, 'cache')
RT_C = os.path.join(VERIF, 'rt', 'vf_rt.c')
RT_DIR = os.path.join(VERIF, 'rt')
LL2C = os.path.join(VERIF, 'tools', 'll2c.py')

CLANG_IR_FLAGS = ['-O1', '-fno-vectorize', '-fno-slp-vectorize', '-fno-unroll-loops', '-fno-access-control', '-DNDEBUG',
                  # do not tail-merge calls: two vf_assert calls merged into one with a phi'd message could not be attributed to a property
                  '-mllvm', '-simplifycfg-sink-common=false']
CBMC_FLAGS = ['--unwinding-assertions', '--pointer-overflow-check', '--undefined-shift-check',
              '--drop-unused-functions', '--no-malloc-may-fail', '--json-ui', '--verbosity', '8']

ELEM_IR = {'int': 'i32', 'unsigned char': 'i8', 'Tr': '%struct.Tr', 'TrX': '%struct.TrX', 'TrM': '%struct.TrM',
           'TrMX': '%struct.TrMX', 'TrC': '%struct.TrC', 'TrA': '%struct.TrA', 'Tv': '%struct.Tv', 'Tw': '%struct.Tw', 'Pz': '%struct.Pz'}

def sh(cmd, **kw):
    return subprocess.run(cmd, stdout=subprocess.PIPE, stderr=subprocess.PIPE, text=True, **kw)

def limit_mem(gb):
    def f():
        b = int(gb * 1024 ** 3)
        resource.setrlimit(resource.RLIMIT_AS, (b, b))
    return f

class Job:
    """one bounded symbolic check = one cbmc run over one translated harness configuration"""
    def __init__(self, name, harness, defs, elems=(), std='c++17', unwind=10, maxalloc=8, minalloc=0,
                 expect_witness=(), timeout=900, mem_gb=10, extra_clang=(), desc=None, unwindset=(), allocmask=None):
        self.name = name; self.harness = harness; self.defs = dict(defs); self.elems = list(elems)
        self.std = std; self.unwind = unwind; self.maxalloc = maxalloc; self.minalloc = minalloc
        self.expect_witness = list(expect_witness); self.timeout = timeout; self.mem_gb = mem_gb
        self.extra_clang = list(extra_clang); self.desc = desc or name; self.unwindset = list(unwindset); self.allocmask = allocmask
    def defflags(self):
        return ['-D%s=%s' % (k, v) if v is not None else '-D%s' % k for k, v in sorted(self.defs.items())]
    def ident(self):
        return {'name': self.name, 'harness': self.harness, 'defs': self.defs, 'std': self.std, 'unwind': self.unwind,
                'alloc_cases': [self.minalloc, self.maxalloc]}

def harness_path(j): return os.path.join(VERIF, 'harness', j.harness + '.cpp')

def std_flags(j):
    # clang-14 miscompiles `if consteval` (libstdc++ 12 uses it for std::is_constant_evaluated() in C++23 mode: observed to be
    # true at run time inside constexpr member functions, so every container lives on the heap). Make libstdc++ fall back to
    # __builtin_is_constant_evaluated(), which is what a conforming compiler's `if consteval` amounts to.
    return ['-std=' + j.std] + (['-U__cpp_if_consteval', '-Wno-builtin-macro-redefined'] if j.std in ('c++2b', 'c++23') else [])

def build_ir(j, wd):
    ll = os.path.join(wd, 'h.ll')
    cmd = ['clang++-14'] + std_flags(j) + CLANG_IR_FLAGS + j.extra_clang + ['-I' + HDR_DIR] + j.defflags() + \
          ['-S', '-emit-llvm', harness_path(j), '-o', ll]
    r = sh(cmd)
    if r.returncode != 0:
        return None, 'clang failed: ' + r.stderr[:6000]
    return ll, None

def gch_functions(j, wd):
    """names of header functions whose code is in the encoding (incl. inlined ones), from debug info"""
    ll = os.path.join(wd, 'hdbg.ll')
    cmd = ['clang++-14'] + std_flags(j) + CLANG_IR_FLAGS + j.extra_clang + ['-gmlt', '-I' + HDR_DIR] + j.defflags() + \
          ['-S', '-emit-llvm', harness_path(j), '-o', ll]
    r = sh(cmd)
    if r.returncode != 0: return []
    names = set()
    hdr_ids = set()
    txt = open(ll).read()
    for m in re.finditer(r'^(!\d+) = !DIFile\(filename: "([^"]*small_vector\.hpp)"', txt, re.M): hdr_ids.add(m.group(1))
    for m in re.finditer(r'!DISubprogram\(name: "([^"]+)"(?:, linkageName: "([^"]+)")?[^\n]*?file: (!\d+), line: (\d+)', txt):
        if m.group(3) in hdr_ids: names.add('%s:%s' % (m.group(1), m.group(4)))
    try: os.remove(ll)
    except OSError: pass
    return sorted(names)

def translate(j, wd, ll):
    c = os.path.join(wd, 'h.c'); info = os.path.join(wd, 'h.json')
    cmd = [sys.executable, LL2C, ll, c]
    for e in j.elems: cmd += ['--elem', e]
    cmd += ['--info', info]
    r = sh(cmd)
    if r.returncode != 0: return None, None, 'll2c failed: ' + r.stderr[-3000:]
    return c, json.load(open(info)), None

def cbmc_cmd(j, c):
    cmd = ['cbmc', c, RT_C, '-I' + RT_DIR, '--unwind', str(j.unwind)] + CBMC_FLAGS + \
          ['-DVF_MAXALLOC=%d' % j.maxalloc, '-DVF_MINALLOC=%d' % j.minalloc] + (['-DVF_ALLOCMASK=%du' % j.allocmask] if j.allocmask is not None else [])
    if j.unwindset: cmd += ['--unwindset', ','.join(j.unwindset)]
    return cmd

def file_sha(paths, extra=''):
    h = hashlib.sha256(extra.encode())
    for p in paths: h.update(open(p, 'rb').read())
    return h.hexdigest()

def parse_cbmc(out):
    try: d = json.loads(out)
    except Exception as ex: return None, 'cannot parse cbmc output: %s' % ex
    res = {'results': [], 'stats': {'symex_s': 0.0, 'solver_s': 0.0, 'variables': 0, 'clauses': 0, 'vccs': 0, 'vccs_remaining': 0, 'steps': 0, 'solver_calls': 0}, 'status': None, 'messages': []}
    for e in d:
        if 'result' in e:
            for r in e['result']:
                item = {'id': r.get('property'), 'desc': r.get('description'), 'status': r.get('status'), 'cls': (r.get('sourceLocation') or {}).get('propertyClass') or r.get('propertyClass'),
                        'fn': (r.get('sourceLocation') or {}).get('function')}
                if r.get('status') == 'FAILURE' and 'trace' in r:
                    inp = None
                    for st in r['trace']:
                        if st.get('stepType') == 'assignment' and st.get('lhs') == 'vf_inputs_v' and 'members' in (st.get('value') or {}):
                            try:
                                els = st['value']['members'][0]['value']['elements']
                                inp = [int(re.sub(r'[^0-9-]', '', x['value']['data'])) & 0xffffffff for x in els]
                            except Exception: pass
                    item['inputs'] = inp
                res['results'].append(item)
        elif 'cProverStatus' in e: res['status'] = e['cProverStatus']
        elif 'messageText' in e:
            t = e['messageText']
            m = re.match(r'Runtime Symex: ([0-9.e+-]+)s', t)
            if m: res['stats']['symex_s'] += float(m.group(1))
            m = re.match(r'Runtime Solver: ([0-9.e+-]+)s', t)
            if m: res['stats']['solver_s'] += float(m.group(1)); res['stats']['solver_calls'] += 1
            m = re.match(r'(\d+) variables, (\d+) clauses', t)
            if m: res['stats']['variables'] = max(res['stats']['variables'], int(m.group(1))); res['stats']['clauses'] = max(res['stats']['clauses'], int(m.group(2)))
            m = re.match(r'Generated (\d+) VCC\(s\), (\d+) remaining', t)
            if m: res['stats']['vccs'] = int(m.group(1)); res['stats']['vccs_remaining'] = int(m.group(2))
            m = re.match(r'size of program expression: (\d+) steps', t)
            if m: res['stats']['steps'] = int(m.group(1))
            if e.get('messageType') == 'ERROR': res['messages'].append(t)
    return res, None

def run_job(j, prop_dir, use_cache=True, want_functions=False):
    """returns dict: ok(bool), error, results[], stats, info, cached, wall_s"""
    t0 = time.time()
    wd = os.path.join(prop_dir, j.name); os.makedirs(wd, exist_ok=True)
    out = {'job': j.ident(), 'desc': j.desc, 'error': None, 'cached': False}
    ll, err = build_ir(j, wd)
    if err: out['error'] = err; out['wall_s'] = time.time() - t0; return out
    c, info, err = translate(j, wd, ll)
    if err: out['error'] = err; out['wall_s'] = time.time() - t0; return out
    out['info'] = info
    if want_functions: out['gch_functions'] = gch_functions(j, wd)
    # the formula is identified by the bytes cbmc will read: copy the generated C to a content-addressed, immutable file first
    # (another process working in the same directory must not be able to change it between hashing and solving)
    data = open(c, 'rb').read()
    h = hashlib.sha256(data)
    for pth in (RT_C, os.path.join(RT_DIR, 'vf_rt.h'), os.path.join(RT_DIR, 'vf_tr_impl.h')): h.update(open(pth, 'rb').read())
    h.update(' '.join(cbmc_cmd(j, 'X')[3:]).encode())
    key = h.hexdigest()
    fc = os.path.join(wd, 'f_%s.c' % key[:20])
    if not os.path.exists(fc):
        import uuid
        tmpc = fc + '.' + uuid.uuid4().hex; open(tmpc, 'wb').write(data); os.replace(tmpc, fc)
    cmd = cbmc_cmd(j, fc)
    cpath = os.path.join(CACHE, key + '.json')
    parsed = None
    if use_cache and os.path.exists(cpath):
        try:
            parsed = json.load(open(cpath)); out['cached'] = True
        except Exception: parsed = None
    if parsed is None:
        try:
            r = subprocess.run(cmd, stdout=subprocess.PIPE, stderr=subprocess.PIPE, text=True, timeout=j.timeout,
                               preexec_fn=limit_mem(j.mem_gb), cwd=wd)
        except subprocess.TimeoutExpired:
            out['error'] = 'undecided: cbmc timeout after %d s' % j.timeout; out['wall_s'] = time.time() - t0; return out
        if r.returncode not in (0, 10):
            out['error'] = 'undecided: cbmc exit %d: %s' % (r.returncode, (r.stdout[-1500:] + r.stderr[-500:]))
            out['wall_s'] = time.time() - t0; return out
        parsed, err = parse_cbmc(r.stdout)
        if err: out['error'] = err; out['wall_s'] = time.time() - t0; return out
        parsed['cbmc_wall_s'] = time.time() - t0
        os.makedirs(CACHE, exist_ok=True)
        import uuid
        tmp = cpath + '.%s.tmp' % uuid.uuid4().hex
        with open(tmp, 'w') as fh: json.dump(parsed, fh)
        os.replace(tmp, cpath)
    out.update(results=parsed['results'], stats=parsed['stats'], cbmc_status=parsed['status'])
    out['wall_s'] = time.time() - t0
    return out

# ---------------------------------------------------------------- native builds
def build_native_cxx(j, wd, compiler='clang++-14', sanitize=True, tag='c'):
    exe = os.path.join(wd, 'native_%s' % tag)
    san = ['-fsanitize=address,undefined', '-fno-sanitize-recover=undefined'] if sanitize else []
    cc = 'clang-14' if compiler.startswith('clang') else 'gcc'
    o1 = os.path.join(wd, 'h_%s.o' % tag); o2 = os.path.join(wd, 'rt_%s.o' % tag)
    r = sh([compiler] + std_flags(j) + ['-O1', '-g', '-DNDEBUG', '-DVF_NATIVE_BUILD', '-fno-access-control' if compiler.startswith('clang') else '-fno-access-control',
            '-I' + HDR_DIR] + j.extra_clang + san + j.defflags() + ['-c', harness_path(j), '-o', o1])
    if r.returncode != 0: return None, r.stderr[-2000:]
    r = sh([cc, '-O1', '-g', '-DVF_NATIVE', '-DVF_NATIVE_CXX'] + san + ['-c', RT_C, '-o', o2])
    if r.returncode != 0: return None, r.stderr[-2000:]
    r = sh([compiler] + san + [o1, o2, '-o', exe])
    if r.returncode != 0: return None, r.stderr[-2000:]
    return exe, None

def build_native_c(j, wd, c):
    exe = os.path.join(wd, 'native_b')
    r = sh(['gcc', '-O1', '-g', '-w', '-DVF_NATIVE', '-fsanitize=address,undefined', '-fno-sanitize-recover=undefined', '-I' + RT_DIR, c, RT_C, '-o', exe])
    if r.returncode != 0: return None, r.stderr[-2000:]
    return exe, None

def run_native(exe, inputs, timeout=20):
    env = dict(os.environ, ASAN_OPTIONS='detect_leaks=0:abort_on_error=0', UBSAN_OPTIONS='print_stacktrace=0')
    r = None
    for attempt in range(5):
        try:
            r = subprocess.run([exe] + [str(x) for x in inputs], stdout=subprocess.PIPE, stderr=subprocess.PIPE, text=True, timeout=timeout, env=env)
            break
        except subprocess.TimeoutExpired:
            return {'rc': -1, 'hash': None, 'fails': ['timeout'], 'assume_false': False, 'san': '', 'witness': []}
        except OSError:
            # ETXTBSY/EACCES race: another thread forked while the linker still had the file open
            time.sleep(0.3 * (attempt + 1))
    if r is None:
        return {'rc': -2, 'hash': None, 'fails': ['cannot execute native binary'], 'assume_false': False, 'san': '', 'witness': []}
    fails = re.findall(r'^ASSERT-FAIL: (.*)$', r.stdout, re.M)
    if r.returncode == -6 and 'terminate called' in r.stderr: fails.append('C18: std::terminate reached')
    elif r.returncode == -6 and not fails: fails.append('abort() called')
    m = re.search(r'^HASH ([0-9a-f]+)$', r.stdout, re.M)
    san = ''
    if 'AddressSanitizer' in r.stderr or 'runtime error' in r.stderr:
        mm = re.search(r'(ERROR: AddressSanitizer[^\n]*|[^\n]*runtime error[^\n]*)', r.stderr); san = mm.group(1) if mm else 'sanitizer report'
    return {'rc': r.returncode, 'hash': m.group(1) if m else None, 'fails': fails, 'assume_false': 'ASSUME-FALSE' in r.stdout, 'san': san,
            'witness': re.findall(r'^WITNESS: (?:witness: )?(.*)$', r.stdout, re.M)}

def gen_inputs(rng, n=48, small=6):
    v = []
    for i in range(n):
        x = rng.random()
        if x < 0.86: v.append(rng.randrange(0, small))
        elif x < 0.9: v.append(rng.choice([0xffffffff, 0x7fffffff, 0x80000000, 255, 256, 65535]))
        else: v.append(rng.getrandbits(32))
    return v

def validate_translation(j, prop_dir, seed, nvec=120):
    """differential run: translated C (gcc) vs real C++ (clang++), same inputs -> same observation hash"""
    wd = os.path.join(prop_dir, j.name)
    c = os.path.join(wd, 'h.c')
    if not os.path.exists(c): return {'error': 'no translated C'}
    eb, err = build_native_c(j, wd, c)
    if err: return {'error': 'build B failed: ' + err}
    ec, err = build_native_cxx(j, wd)
    if err: return {'error': 'build C failed: ' + err}
    rng = random.Random((seed * 1000003) ^ (hash(j.name) & 0xffffff))
    ran = 0; valid = 0; mismatches = []; native_fails = []
    for k in range(nvec):
        inp = gen_inputs(rng)
        rb = run_native(eb, inp); rc = run_native(ec, inp)
        ran += 1
        if rb['assume_false'] != rc['assume_false'] or rb['hash'] != rc['hash'] or rb['fails'] != rc['fails']:
            mismatches.append({'inputs': inp[:24], 'c': rb, 'cxx': rc})
        if not rc['assume_false']:
            valid += 1
            if rc['fails'] or rc['san']: native_fails.append({'inputs': inp[:24], 'fails': rc['fails'], 'san': rc['san']})
    return {'vectors': ran, 'valid': valid, 'mismatches': mismatches[:3], 'n_mismatch': len(mismatches), 'native_fails': native_fails[:3], 'n_native_fail': len(native_fails)}

def replay(j, prop_dir, inputs, want_msg=None):
    """replay a counterexample against the real C++ (clang++ and g++, ASan+UBSan)"""
    wd = os.path.join(prop_dir, j.name); os.makedirs(wd, exist_ok=True)
    res = {}
    for comp, tag in (('clang++-14', 'rc'), ('g++', 'rg')):
        exe, err = build_native_cxx(j, wd, compiler=comp, tag=tag)
        if err: res[comp] = {'error': err}; continue
        r = run_native(exe, inputs)
        res[comp] = r
    def confirmed(r):
        if 'error' in r: return False
        if want_msg is not None and any(want_msg == f for f in r['fails']): return True
        if r['san']: return True   # a sanitizer report on the solver's inputs is a reproduction (it may stop the run before the assertion is reached)
        return want_msg is None and bool(r['fails'])
    ok = any(confirmed(r) for r in res.values())
    san_only = (not ok) and any(('error' not in r) and (r['san'] or r['fails']) for r in res.values())
    return {'confirmed': ok, 'other_failure': san_only, 'runs': res}
