#!/bin/bash
# confirm a seeded change in a scratch worktree: applies, builds, the unedited suite passes, demo fails with / passes without.
# usage: tools/confirm_seed.sh <seed-id> [jobs]
id=$1; J=${2:-8}
SD=/verif/seeded/$id; WT=/tmp/seedconf/$id
mkdir -p /tmp/seedconf; rm -rf $WT; git -C /repo worktree prune
git -C /repo worktree add --detach -f $WT HEAD > /dev/null 2>&1 || { echo "worktree failed"; exit 2; }
out=$SD/confirm.txt; : > $out
if ! git -C $WT apply $SD/patch.diff 2>> $out; then echo "APPLY: failed" >> $out; git -C /repo worktree remove --force $WT; exit 1; fi
echo "APPLY: ok ($(git -C $WT diff --stat | tail -1))" >> $out
std=${DEMO_STD:-c++17}
g++ -std=$std -O1 -g -fsanitize=address,undefined -I $WT/source/include $SD/demo.cpp -o /tmp/seedconf/${id}_demo_mod >> $out 2>&1
g++ -std=$std -O1 -g -fsanitize=address,undefined -I /repo/source/include $SD/demo.cpp -o /tmp/seedconf/${id}_demo_orig >> $out 2>&1
timeout 600 /tmp/seedconf/${id}_demo_mod > /tmp/seedconf/${id}_mod.out 2>&1; echo "DEMO with change: exit $?  ($(tail -1 /tmp/seedconf/${id}_mod.out | cut -c1-160))" >> $out
timeout 600 /tmp/seedconf/${id}_demo_orig > /tmp/seedconf/${id}_orig.out 2>&1; echo "DEMO without change: exit $?  ($(tail -1 /tmp/seedconf/${id}_orig.out | cut -c1-160))" >> $out
cmake -G Ninja -S $WT -B $WT/_b -DCMAKE_BUILD_TYPE=RelWithDebInfo -DGCH_SMALL_VECTOR_ENABLE_BENCHMARKS=OFF > /dev/null 2>&1
if cmake --build $WT/_b -j$J > /tmp/seedconf/${id}_build.log 2>&1; then echo "BUILD: ok" >> $out; else echo "BUILD: FAILED ($(grep -m1 error /tmp/seedconf/${id}_build.log | cut -c1-200))" >> $out; fi
ctest --test-dir $WT/_b -j$J --timeout 900 > /tmp/seedconf/${id}_ctest.log 2>&1
echo "TESTS: $(grep 'tests passed' /tmp/seedconf/${id}_ctest.log)" >> $out
git -C /repo worktree remove --force $WT; rm -f /tmp/seedconf/${id}_demo_* /tmp/seedconf/${id}_build.log
cat $out
