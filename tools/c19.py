#!/usr/bin/env python3-vt
"""C19: default inline capacity sizes the object to 64 bytes; empty base costs nothing.

Decided by z3 over (a) the default_buffer_size formula extracted from the header source on every run and
(b) an Itanium-ABI layout model L(n, S, A, a, aa, w) of the container object that is itself validated on
every run against sizeof/alignof of concrete instantiations compiled with clang++ and g++.
"""
import os, sys, re, json, time, subprocess, itertools, random
import z3

VERIF = os.path.dirname(os.path.dirname(os.path.abspath(__file__)))
REPO = os.environ.get('VERIF_REPO', '/repo')
HDR = os.path.join(REPO, 'source', 'include', 'gch', 'small_vector.hpp')
BUILD = os.path.join(VERIF, 'build', 'C19'); os.makedirs(BUILD, exist_ok=True)
EVDIR = os.environ.get('VERIF_EVIDENCE_DIR') or os.path.join(VERIF, 'evidence')
RPDIR = os.path.join(os.environ['VERIF_EVIDENCE_DIR'], 'replays') if os.environ.get('VERIF_EVIDENCE_DIR') else os.path.join(VERIF, 'replays')
PID = 'C19'

# ---------------------------------------------------------------- formula extraction (source -> z3)
class Parser:
    """tiny C++ integral-expression parser: literals, identifiers, sizeof(x), + - * / < <= > >= == != ?: ( )"""
    def __init__(self, text, env):
        self.t = re.findall(r'sizeof\s*\(\s*[A-Za-z_][A-Za-z_0-9:]*\s*\)|[A-Za-z_][A-Za-z_0-9]*|\d+[uUlL]*|<=|>=|==|!=|[-+*/()<>?:]', text); self.i = 0; self.env = env
    def peek(self): return self.t[self.i] if self.i < len(self.t) else None
    def next(self): x = self.t[self.i]; self.i += 1; return x
    def expr(self):
        c = self.rel()
        if self.peek() == '?':
            self.next(); a = self.expr(); assert self.next() == ':'; b = self.expr()
            return z3.If(c if z3.is_bool(c) else c != 0, a, b)
        return c
    def rel(self):
        a = self.add()
        while self.peek() in ('<', '<=', '>', '>=', '==', '!='):
            op = self.next(); b = self.add()
            a = {'<': z3.ULT, '<=': z3.ULE, '>': z3.UGT, '>=': z3.UGE}.get(op, None)(a, b) if op in ('<', '<=', '>', '>=') else (a == b if op == '==' else a != b)
        return a
    def add(self):
        a = self.mul()
        while self.peek() in ('+', '-'):
            op = self.next(); b = self.mul(); a = a + b if op == '+' else a - b
        return a
    def mul(self):
        a = self.atom()
        while self.peek() in ('*', '/'):
            op = self.next(); b = self.atom(); a = a * b if op == '*' else z3.UDiv(a, b)
        return a
    def atom(self):
        x = self.next()
        if x == '(':
            e = self.expr(); assert self.next() == ')'; return e
        if x.startswith('sizeof'):
            nm = re.search(r'\(\s*([A-Za-z_][A-Za-z_0-9:]*)', x).group(1)
            return self.env['sizeof:' + nm]
        if re.fullmatch(r'\d+[uUlL]*', x): return z3.BitVecVal(int(re.sub(r'[uUlL]', '', x)), 32)
        if x in self.env: return self.env[x]
        raise SyntaxError('unknown identifier in default_buffer_size formula: ' + x)

def extract_formula(src):
    m = re.search(r'struct default_buffer_size\s*\{(.*?)\n  \};', src, re.S)
    if not m: raise SystemExit('cannot find default_buffer_size in the header')
    body = m.group(1)
    inits = {}
    for mm in re.finditer(r'static constexpr\s+unsigned\s+(\w+)\s*=\s*([^;]+);', body): inits[mm.group(1)] = ' '.join(mm.group(2).split())
    dm = re.search(r'#\s*define\s+GCH_SMALL_VECTOR_DEFAULT_SIZE\s+(\d+)', src)
    am = re.search(r'using\s+empty_small_vector\s*=\s*small_vector\s*<([^;]*)>\s*;', body)
    alias_args = [a.strip() for a in am.group(1).split(',')] if am else None
    inits['__empty_alias__'] = alias_args
    return inits, int(dm.group(1)) if dm else None

def formula_value(inits, total, S, E):
    env = {'sizeof:value_type': S, 'sizeof:empty_small_vector': E, 'GCH_SMALL_VECTOR_DEFAULT_SIZE': z3.BitVecVal(total, 32)}
    done = {}
    def val(name):
        if name in done: return done[name]
        e2 = dict(env)
        for k in inits:
            if k.startswith('__'): continue
            if k != name and re.search(r'\b%s\b' % k, inits[name]): e2[k] = val(k)
        done[name] = Parser(inits[name], e2).expr(); return done[name]
    return val('value')

# ---------------------------------------------------------------- layout model (Itanium C++ ABI, x86-64)
def rup(x, a): return z3.UDiv(x + a - 1, a) * a
def umax(a, b): return z3.If(z3.UGE(a, b), a, b)
def L(n, S, A, a, aa, w):
    """sizeof(small_vector<T, n, Alloc>): S=sizeof(T), A=alignof(T), a=allocator state bytes (0: empty, EBO), aa=allocator alignment, w=sizeof(size_type)"""
    eight = z3.BitVecVal(8, 32)
    db_dsize = eight + 2 * w                          # pointer, capacity, size; non-POD => tail padding is reusable by the derived class
    data_align = z3.If(n == 0, eight, umax(eight, A))
    off_storage = rup(db_dsize, A)                    # inline_storage member placed in the base's tail padding when alignment allows
    data_size = z3.If(n == 0, rup(db_dsize, eight), rup(off_storage + n * S, data_align))
    off_data = z3.If(a == 0, z3.BitVecVal(0, 32), rup(a, data_align))   # empty allocator: empty base optimisation
    total_align = z3.If(a == 0, data_align, umax(data_align, aa))
    return rup(off_data + data_size, total_align)

def py_L(n, S, A, a, aa, w):
    s = z3.Solver(); r = z3.BitVec('r', 32)
    s.add(r == L(*[z3.BitVecVal(x, 32) for x in (n, S, A, a, aa, w)])); s.check(); return s.model()[r].as_long()

# ---------------------------------------------------------------- validation of the layout model against the compilers
PROG_HEAD = r'''
#include <gch/small_vector.hpp>
#include <cstdio>
#include <cstdint>
template <unsigned S, unsigned A> struct alignas(A) El { unsigned char b[S]; };
template <typename T, unsigned STATE, typename SizeT, bool PTRSTATE> struct lay_alloc {
  using value_type = T; using size_type = SizeT; using difference_type = typename std::make_signed<SizeT>::type;
  template <typename U> struct rebind { using other = lay_alloc<U, STATE, SizeT, PTRSTATE>; };
  typename std::conditional<PTRSTATE, void *, unsigned char>::type state[PTRSTATE ? STATE / 8 : STATE];
  lay_alloc() = default; template <typename U> lay_alloc(const lay_alloc<U, STATE, SizeT, PTRSTATE>&) noexcept {}
  T *allocate(std::size_t n) { return static_cast<T *>(::operator new(n * sizeof(T))); }
  void deallocate(T *p, std::size_t) noexcept { ::operator delete(p); }
  friend bool operator==(const lay_alloc&, const lay_alloc&) noexcept { return true; } friend bool operator!=(const lay_alloc&, const lay_alloc&) noexcept { return false; }
};
template <typename T, typename SizeT> struct lay_alloc<T, 0, SizeT, false> {
  using value_type = T; using size_type = SizeT; using difference_type = typename std::make_signed<SizeT>::type;
  template <typename U> struct rebind { using other = lay_alloc<U, 0, SizeT, false>; };
  lay_alloc() = default; template <typename U> lay_alloc(const lay_alloc<U, 0, SizeT, false>&) noexcept {}
  T *allocate(std::size_t n) { return static_cast<T *>(::operator new(n * sizeof(T))); }
  void deallocate(T *p, std::size_t) noexcept { ::operator delete(p); }
  friend bool operator==(const lay_alloc&, const lay_alloc&) noexcept { return true; } friend bool operator!=(const lay_alloc&, const lay_alloc&) noexcept { return false; }
};
template <unsigned S, unsigned A, unsigned STATE, typename SizeT, bool P, unsigned N> void row() {
  using T = El<S, A>; using AL = lay_alloc<T, STATE, SizeT, P>; using V = gch::small_vector<T, N, AL>;
  V v; unsigned long off = N ? (unsigned long)((unsigned char *)v.data() - (unsigned char *)&v) : 0;
  std::printf("%u %u %u %u %u %u %zu %zu %u %lu %u\n", S, A, STATE, (unsigned)sizeof(SizeT), (unsigned)P, N, sizeof(V), alignof(V), gch::default_buffer_size<AL>::value, off, (unsigned)V::inline_capacity());
}
int main() {
'''
def sizet_name(w): return {1: 'std::uint8_t', 2: 'std::uint16_t', 4: 'std::uint32_t', 8: 'std::uint64_t'}[w]

def validate_model(cells, compilers):
    src = PROG_HEAD
    for (S, A, a, p, w, n) in cells:
        src += '  row<%d, %d, %d, %s, %s, %d>();\n' % (S, A, a, sizet_name(w), 'true' if p else 'false', n)
    src += '}\n'
    path = os.path.join(BUILD, 'layout.cpp'); open(path, 'w').write(src)
    rows = {}; errs = []
    for comp in compilers:
        exe = os.path.join(BUILD, 'layout_' + comp.replace('+', 'p'))
        r = subprocess.run([comp, '-std=c++17', '-O0', '-I' + os.path.dirname(os.path.dirname(HDR)), path, '-o', exe], stdout=subprocess.PIPE, stderr=subprocess.PIPE, text=True)
        if r.returncode != 0: errs.append('%s failed to compile the layout program: %s' % (comp, r.stderr[-1500:])); continue
        out = subprocess.run([exe], stdout=subprocess.PIPE, text=True).stdout
        rows[comp] = [tuple(int(x) for x in l.split()) for l in out.strip().split('\n')]
    return rows, errs

def main():
    t0 = time.time()
    tier = 'thorough' if ('--tier' in sys.argv and sys.argv[sys.argv.index('--tier') + 1] == 'thorough') else os.environ.get('VERIF_TIER', 'quick')
    if tier not in ('quick', 'thorough'): tier = 'quick'
    seed = int(os.environ.get('VERIF_SEED', '1'))
    src = open(HDR).read()
    inits, total = extract_formula(src)
    framework = []; violations = []; known_hits = []
    if total is None or 'value' not in inits or 'ideal_buffer' not in inits: framework.append('cannot extract the default_buffer_size formula from the header')

    # ---- (1) validate the layout model on concrete instantiations
    rng = random.Random(seed)
    cells = []
    grid = [(S, A) for A in (1, 2, 4, 8, 16, 32, 64) for S in (A, 2 * A, 3 * A, 5 * A) if S <= 72]
    for (S, A) in grid:
        for (a, p) in [(0, 0), (rng.choice([1, 3, 4, 7, 12, 17, 24]), 0), (rng.choice([8, 16, 24]), 1)]:
            w = rng.choice([1, 2, 4, 8])
            for n in (0, 1, rng.choice([2, 3, 5])):
                cells.append((S, A, a, p, w, n))
    if tier == 'thorough':
        for (S, A) in grid:
            for w in (1, 2, 4, 8):
                for (a, p) in [(0, 0), (5, 0), (16, 1)]:
                    for n in (0, 1, 2, 4, 7): cells.append((S, A, a, p, w, n))
    cells = sorted(set(cells))
    rows, errs = validate_model(cells, ['clang++-14', 'g++'])
    framework += errs
    mism = []; checked = 0; samples = []
    for comp, rr in rows.items():
        for (S, A, a, w, p, n, szof, alof, dflt, off, icap) in rr:
            aa = 8 if p else 1
            want = py_L(n, S, A, a, aa if a else 1, w); checked += 1
            if want != szof: mism.append({'compiler': comp, 'cell': [S, A, a, w, p, n], 'sizeof': szof, 'model': want})
            if icap != n: violations.append({'msg': 'C19: inline_capacity() does not report the template argument', 'cell': [S, A, a, w, p, n], 'got': icap})
            if n and off % A != 0: violations.append({'msg': 'C19: inline buffer is not aligned for the element type', 'cell': [S, A, a, w, p, n], 'offset': off})
            if n and alof < A: violations.append({'msg': 'C19: container alignment below element alignment', 'cell': [S, A, a, w, p, n]})
            if n == 0 and a == 0:
                exact = (8 + 2 * w + 7) // 8 * 8
                if szof != exact: violations.append({'msg': 'C19: zero-capacity container with a stateless allocator is not one pointer plus two size_type fields (rounded to pointer alignment)', 'cell': [S, A, a, w, p, n], 'sizeof': szof, 'expected': exact})
            if len(samples) < 5: samples.append({'compiler': comp, 'sizeof_T': S, 'alignof_T': A, 'alloc_state_bytes': a, 'size_type_bytes': w, 'N': n, 'sizeof': szof, 'model': want})
    if mism: framework.append('layout model disagrees with the compiler on %d instantiations, e.g. %s' % (len(mism), json.dumps(mism[:2])))
    # the extracted formula, evaluated on the same concrete cells, must reproduce the compiler's default_buffer_size<A>::value
    fmism = []
    def BV(x): return z3.BitVecVal(x, 32)
    if total is not None and not framework:
        alias0 = inits.get('__empty_alias__')
        for comp, rr in rows.items():
            for (S_, A_, a_, w_, p_, n_, szof, alof, dflt, off, icap) in rr:
                if n_ != 0: continue
                aa_ = (8 if p_ else 1) if a_ else 1
                if alias0 is not None and len(alias0) == 2: Ec = py_L(0, S_, A_, 0, 1, 8)
                else: Ec = py_L(0, S_, A_, a_, aa_, w_)
                fv = z3.simplify(formula_value(inits, total, BV(S_), BV(Ec)))
                if fv.as_long() != dflt: fmism.append({'compiler': comp, 'cell': [S_, A_, a_, w_, p_], 'compiled_default': dflt, 'formula': fv.as_long()})
        if fmism: framework.append('the formula extracted from the header does not reproduce default_buffer_size<A>::value on %d instantiations, e.g. %s' % (len(fmism), json.dumps(fmism[:2])))

    # ---- (2) z3: formula vs "largest n with L(n) <= total (or 1)"
    queries = []; solver_s = 0.0
    S, A, a, aa, w = z3.BitVecs('S A a aa w', 32)
    dom = [z3.UGE(S, 1), z3.ULE(S, 72), z3.Or([A == x for x in (1, 2, 4, 8, 16, 32, 64)]), z3.URem(S, A) == 0,
           z3.ULE(a, 24), z3.Or(aa == 1, aa == 8), z3.Or(a == 0, z3.URem(a, aa) == 0)   # allocator state as a byte array (alignment 1) or a pointer array (alignment 8): what the validation programs instantiate
          , z3.Or([w == x for x in (1, 2, 4, 8)])]
    alias = inits.get('__empty_alias__')
    def empty_size(S_, A_, a_, aa_, w_):
        if alias is not None and len(alias) == 3 and alias[0] == 'value_type' and alias[1] == '0' and alias[2] == 'allocator_type':
            return L(z3.BitVecVal(0, 32), S_, A_, a_, aa_, w_)
        if alias is not None and len(alias) == 2 and alias[0] == 'value_type' and alias[1] == '0':
            return L(z3.BitVecVal(0, 32), S_, A_, z3.BitVecVal(0, 32), z3.BitVecVal(1, 32), z3.BitVecVal(8, 32))   # default allocator std::allocator<T>
        framework.append('unrecognised definition of default_buffer_size::empty_small_vector: %r' % (alias,)); return L(z3.BitVecVal(0, 32), S_, A_, a_, aa_, w_)
    def run_query(name, extra, kind):
        nonlocal solver_s
        if total is None or framework: return None
        s = z3.Solver(); s.set('timeout', 120000)
        E = empty_size(S, A, a, aa, w)
        v = formula_value(inits, total, S, E)
        T = z3.BitVecVal(total, 32)
        n = z3.BitVec('n', 32)
        fits = lambda k: z3.ULE(L(k, S, A, a, aa, w), T)
        if kind == 'not-largest': wrong = z3.And(z3.UGT(n, v), z3.ULE(n, 80), fits(n))            # a larger count also fits in `total` bytes
        else: wrong = z3.Or(z3.And(z3.UGE(v, 2), z3.Not(fits(v))), v == 0)                          # the default (>= 2) makes the object larger than `total`
        s.add(dom + extra + [wrong])
        t1 = time.time(); r = s.check(); dt = time.time() - t1; solver_s += dt
        q = {'query': name + ' / ' + kind, 'result': str(r), 'seconds': round(dt, 2), 'kind': kind}
        if r == z3.sat:
            m = s.model(); q['model'] = {k: m.eval(x, model_completion=True).as_long() for k, x in (('S', S), ('A', A), ('a', a), ('aa', aa), ('w', w), ('n', n))}
            q['formula_value'] = m.eval(v, model_completion=True).as_long(); q['sizeof_empty'] = m.eval(E, model_completion=True).as_long()
        elif r != z3.unsat: framework.append('z3 returned %s for query %s' % (r, name))
        queries.append(q); return q
    classes = [
        ('w8-stateless-A<=8', 'size_type 8 bytes, stateless allocator, alignof(T) <= 8 (the std::allocator case)', [w == 8, a == 0, z3.ULE(A, 8)]),
        ('w8-stateless-A>8', 'size_type 8 bytes, stateless allocator, over-aligned T', [w == 8, a == 0, z3.UGT(A, 8)]),
        ('w8-stateful-A<=8', 'size_type 8 bytes, allocator with state, alignof(T) <= 8', [w == 8, a != 0, z3.ULE(A, 8)]),
        ('w8-stateful-A>8', 'size_type 8 bytes, allocator with state, over-aligned T', [w == 8, a != 0, z3.UGT(A, 8)]),
        ('narrow-A<=8', 'size_type narrower than a pointer, alignof(T) <= 8', [z3.ULT(w, 8), z3.ULE(A, 8)]),
        ('narrow-A>8', 'size_type narrower than a pointer, over-aligned T', [z3.ULT(w, 8), z3.UGT(A, 8)]),
    ]
    results = []
    for (ck, cname, extra) in classes:
        for kind in ('not-largest', 'exceeds'):
            results.append((run_query(cname, extra, kind), 'layout/default_buffer_size/%s/%s' % (ck, kind)))

    known = []
    kf = os.path.join(VERIF, 'known_findings.txt')
    if os.path.exists(kf):
        for ln in open(kf):
            m = re.match(r'known: property=C19 key=(.*?) :: (.*)$', ln.strip())
            if m: known.append((m.group(1).strip(), m.group(2)))
    def replay(q):
        """compile a static_assert program for the counterexample: the formula's value fits and value+1 (or the model's n) also fits"""
        mdl = q['model']; p = 0; aN = mdl['a']
        if aN and mdl['aa'] == 8 and aN % 8 == 0: p = 1
        elif aN and mdl['aa'] != 1: return None   # only char-array or pointer-array allocator state can be instantiated
        prog = PROG_HEAD.replace('int main() {', '') + 'int main() { using T = El<%d, %d>; using AL = lay_alloc<T, %d, %s, %s>;\n' % (mdl['S'], mdl['A'], aN, sizet_name(mdl['w']), 'true' if p else 'false')
        prog += '  constexpr unsigned d = gch::default_buffer_size<AL>::value;\n'
        if q['kind'] == 'not-largest': prog += '  static_assert(sizeof(gch::small_vector<T, d + 1, AL>) > %d, "a larger inline capacity also fits"); }\n' % total
        else: prog += '  static_assert(d == 1 || sizeof(gch::small_vector<T, d, AL>) <= %d, "the default capacity makes the object larger"); }\n' % total
        path = os.path.join(BUILD, 'cex.cpp'); open(path, 'w').write(prog)
        r = subprocess.run(['g++', '-std=c++17', '-fsyntax-only', '-I' + os.path.dirname(os.path.dirname(HDR)), path], stdout=subprocess.PIPE, stderr=subprocess.PIPE, text=True)
        return r.returncode != 0, path
    os.makedirs(RPDIR, exist_ok=True); os.makedirs(EVDIR, exist_ok=True)
    rc = 0
    for q, key in results:
        if q and q['result'] == 'sat':
            rep = replay(q)
            if rep is None or not rep[0]:
                framework.append('z3 counterexample %s did not reproduce as a static_assert program: model or encoding suspect' % json.dumps(q.get('model'))); continue
            hit = [k for k in known if k[0] == key]
            if hit: known_hits.append(hit[0]); print('KNOWN-FINDING: property=C19 %s [%s]' % (hit[0][1], key))
            else:
                path = os.path.join(RPDIR, 'C19_%s.json' % re.sub(r'\W', '_', key))
                json.dump({'property': 'C19', 'key': key, 'query': q, 'program': rep[1], 'how': 'g++ -std=c++17 -fsyntax-only -I/repo/source/include ' + rep[1]}, open(path, 'w'), indent=1)
                print('VIOLATION property=C19 replay=%s' % path); print('  default_buffer_size violates the %s-byte rule (%s): %s' % (total, q['kind'], json.dumps(q['model']))); rc = 1
    for v in violations:
        path = os.path.join(RPDIR, 'C19_layout_%d.json' % (abs(hash(json.dumps(v))) % 100000)); json.dump(v, open(path, 'w'), indent=1)
        print('VIOLATION property=C19 replay=%s' % path); print('  ' + v['msg'] + ' ' + json.dumps(v['cell'])); rc = 1
    for q in queries: print('  z3 %-7s %5.2fs  %s%s' % (q['result'], q['seconds'], q['query'], ('  e.g. ' + json.dumps(q['model'])) if 'model' in q else ''))
    for f in framework: print('FRAMEWORK-ERROR: C19: ' + f[:1500])
    if framework and rc == 0: rc = 2
    wall = time.time() - t0
    ev = {'property_id': 'C19', 'tier': tier, 'seed': seed, 'level': 'other',
          'coverage': {
              'explanation': 'No run-time code: the subject is default_buffer_size<A>::value and the compiler\'s class layout. The initialisers of ideal_buffer and value are extracted from the header source on every run and translated to z3 bit-vector terms '
                             '(sizeof(value_type) -> S, sizeof(empty_small_vector) -> the layout model at n = 0). The object size is a z3 function L(n, S, A, a, aa, w) written from the Itanium ABI rules for this hierarchy (empty-base allocator, '
                             'data base with reusable tail padding, aligned storage array). z3 is asked for S in [1,72], A in {1..64}, A | S, allocator state 0..24 bytes, size_type 1/2/4/8 bytes with value != the largest n such that L(n) <= 64 (or 1). '
                             'L is validated on every run against sizeof/alignof/offset of concrete instantiations compiled with clang++ and g++, and every counterexample is replayed as a static_assert program.',
              'technique': 'z3 over the formula extracted from the header + a compiler-validated layout model',
              'evaluations': len(queries) + checked, 'distinct_nontrivial': len(queries) + len(cells),
              'rule': 'z3 queries (each quantifies over the whole S/A/a/w domain) + distinct concrete (S, A, allocator state, size_type, N) instantiations used to validate the layout model against both compilers',
              'queries': queries, 'solver_seconds': round(solver_s, 2), 'formula_extracted': inits, 'default_size_macro': total,
              'layout_model_cells_checked': checked, 'layout_model_mismatches': len(mism), 'samples': samples,
              'functions_encoded': ['gch::default_buffer_size<Allocator>::{ideal_buffer,value} (source-extracted)', 'class layout of small_vector / small_vector_base / allocator_inliner / small_vector_data(_base) / inline_storage (model validated against sizeof)'],
              'bounds': {'sizeof_T': '1..72', 'alignof_T': '1..64 (powers of two dividing sizeof)', 'allocator_state_bytes': '0..24', 'size_type_bytes': [1, 2, 4, 8], 'candidate_counts': '<= 80'},
              'known_findings_hit': [k[0] for k in known_hits], 'exhaustive': False},
          'assumptions': ['Itanium C++ ABI on x86-64 (clang++-14 and g++ 12 agree with the model on every instantiation tried in this run)', 'z3 4.x bit-vector reasoning',
                          'allocator alignment is 1 (byte state) or 8 (pointer state) in the instantiations that validate the model'],
          'wall_s': round(wall, 1), 'violations': 1 if rc == 1 else 0}
    json.dump(ev, open(os.path.join(EVDIR, 'C19.json'), 'w'), indent=1)
    print('[C19] %s: %d z3 queries, %d layout instantiations validated, %.0f s' % ('HELD' if rc == 0 else ('VIOLATED' if rc == 1 else 'ERROR'), len(queries), checked, wall))
    return rc

if __name__ == '__main__':
    sys.exit(main())
