#!/usr/bin/env python3
"""Run property checks against a seeded change without touching /repo.

  tools/seedcheck.py <seed-id> [--props C05,C06 | --all] [--tier quick] [--only SUBSTR]

A scratch copy of /repo's source tree is made under /var/tmp/svwork/<seed-id>, seeded/<seed-id>/patch.diff is
applied to it, and the checks run with VERIF_REPO pointing at the copy. Results go to seeded/<seed-id>/results.json.
(The final confirmation of a seed is done with `git -C /repo apply` / `git -C /repo checkout -- .`; this tool is
for development, when other runs may be using /repo.)
"""
import os, sys, json, subprocess, shutil, re, time
VERIF = os.path.dirname(os.path.dirname(os.path.abspath(__file__)))
def main():
    sid = sys.argv[1]; args = sys.argv[2:]
    sd = os.path.join(VERIF, 'seeded', sid); meta = json.load(open(os.path.join(sd, 'meta.json')))
    props = [meta['property']]
    tier = 'quick'; only = None
    i = 0
    while i < len(args):
        if args[i] == '--props': props = args[i + 1].split(','); i += 2
        elif args[i] == '--all':
            props = [json.loads(l)['property_id'] for l in []] or [c['property_id'] for c in json.load(open(os.path.join(VERIF, 'MANIFEST.json')))['checks']]; i += 1
        elif args[i] == '--tier': tier = args[i + 1]; i += 2
        elif args[i] == '--only': only = args[i + 1]; i += 2
        else: raise SystemExit('bad arg ' + args[i])
    work = os.path.join('/var/tmp/svwork', sid)
    shutil.rmtree(work, ignore_errors=True); os.makedirs(work)
    shutil.copytree('/repo/source', os.path.join(work, 'source'))
    r = subprocess.run(['patch', '-p1', '-d', work, '-i', os.path.join(sd, 'patch.diff')], stdout=subprocess.PIPE, stderr=subprocess.STDOUT, text=True)
    if r.returncode != 0: raise SystemExit('patch failed: ' + r.stdout)
    res = {}
    rp = os.path.join(sd, 'results.json')
    if os.path.exists(rp): res = json.load(open(rp))
    for p in props:
        t0 = time.time()
        cmd = [sys.executable, os.path.join(VERIF, 'run.py'), '--property', p, '--tier', tier, '--no-validate'] + (['--only=' + only] if only else [])
        env = dict(os.environ, VERIF_REPO=work, VERIF_EVIDENCE_DIR=os.path.join(work, 'evidence'))
        r = subprocess.run(cmd, stdout=subprocess.PIPE, stderr=subprocess.STDOUT, text=True, env=env, cwd=VERIF)
        lines = r.stdout.split('\n')
        viol = [l for l in lines if l.startswith('VIOLATION')]
        msgs = sorted(set(lines[i + 1].strip() for i, l in enumerate(lines) if l.startswith('VIOLATION') and i + 1 < len(lines)))
        fw = [l[:300] for l in lines if l.startswith('FRAMEWORK-ERROR')]
        res[p + ('' if not only else ':' + only)] = {'rc': r.returncode, 'violations': len(viol), 'messages': msgs[:12], 'framework': fw[:5], 'wall_s': round(time.time() - t0), 'tier': tier}
        print('%s vs %s: rc=%d, %d violation lines, %d framework errors (%.0f s)' % (sid, p, r.returncode, len(viol), len(fw), time.time() - t0))
        for m in msgs[:6]: print('    ' + m[:200])
        json.dump(res, open(rp, 'w'), indent=1)
    shutil.rmtree(work, ignore_errors=True)
if __name__ == '__main__': main()
