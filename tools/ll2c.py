#!/usr/bin/env python3
"""LLVM-14 textual IR (typed pointers) -> C translator for cbmc.

Usage: ll2c.py in.ll out.c [--elem <IRTYPE>]... [--info out.json]

Design notes (see /verif/DESIGN.md 2.1):
 * one C struct per LLVM struct type, arrays wrapped in struct{T a[n];};
   GEPs become typed member/element accesses (never byte arithmetic);
 * C++ exceptions are lowered to a flag protocol (vf_exc_active / vf_throw / landing pads);
 * llvm.memcpy/memmove/memset are lowered to typed element loops (never cbmc built-ins);
 * byte buffers that hold elements (inline_storage unions, stack_temporary buffers, byte
   allocas) are re-declared with the element type of equal size ("retyping");
 * _Static_assert on sizeof of every struct against the layout computed from the IR.
"""
import re, sys, collections, json

# ---------------------------------------------------------------- tokenizer
TOK = re.compile(r'''
   (?P<ws>\s+)
 | (?P<str>c"(?:[^"\\]|\\[0-9A-Fa-f]{2}|\\\\)*")
 | (?P<qid>[%@]"(?:[^"\\]|\\.)*")
 | (?P<id>[%@][-a-zA-Z$._0-9]+)
 | (?P<meta>![-a-zA-Z$._0-9]*)
 | (?P<attr>\#[0-9]+)
 | (?P<fnum>-?[0-9]+\.[0-9]+(?:e[+-]?[0-9]+)?)
 | (?P<hex>0x[KLMHR]?[0-9A-Fa-f]+)
 | (?P<num>-?[0-9]+)
 | (?P<word>[a-zA-Z_][-a-zA-Z_.0-9]*)
 | (?P<dots>\.\.\.)
 | (?P<punct>[()\[\]{}<>,=*:|])
 | (?P<qstr>"(?:[^"\\]|\\.)*")
''', re.X)

def tokenize(s):
    out = []; i = 0; n = len(s)
    while i < n:
        if s[i] == ';':
            break
        m = TOK.match(s, i)
        if not m:
            raise SyntaxError('tok: %r' % s[i:i+40])
        i = m.end()
        if m.lastgroup == 'ws': continue
        out.append(m.group())
    return out

# ---------------------------------------------------------------- types
class Ty:
    def __eq__(s, o): return isinstance(o, Ty) and s.key() == o.key()
    def __hash__(s): return hash(s.key())
class IntTy(Ty):
    def __init__(s, bits): s.bits = bits
    def key(s): return 'i%d' % s.bits
class VoidTy(Ty):
    def key(s): return 'void'
class FloatTy(Ty):
    def __init__(s, n): s.n = n
    def key(s): return s.n
class PtrTy(Ty):
    def __init__(s, to): s.to = to
    def key(s): return 'p_' + s.to.key()
class ArrTy(Ty):
    def __init__(s, n, el): s.n = n; s.el = el
    def key(s): return 'a%d_%s' % (s.n, s.el.key())
class StructTy(Ty):  # literal
    def __init__(s, els, packed=False): s.els = els; s.packed = packed
    def key(s): return ('ps_' if s.packed else 's_') + '_'.join(e.key() for e in s.els) + '_e'
class NamedTy(Ty):
    def __init__(s, name): s.name = name
    def key(s): return 'n_' + san(s.name)
class FnTy(Ty):
    def __init__(s, ret, args, va): s.ret = ret; s.args = args; s.va = va
    def key(s): return 'fn'
class MetaTy(Ty):
    def key(s): return 'metadata'

def san(n):
    n = n.strip('%@"')
    return re.sub(r'[^A-Za-z0-9_]', lambda m: '_%02x' % ord(m.group()), n)

class P:
    """token stream parser"""
    def __init__(s, toks): s.t = toks; s.i = 0
    def peek(s, k=0): return s.t[s.i+k] if s.i+k < len(s.t) else None
    def next(s):
        r = s.t[s.i]; s.i += 1; return r
    def accept(s, x):
        if s.peek() == x: s.i += 1; return True
        return False
    def expect(s, x):
        r = s.next()
        if r != x: raise SyntaxError('expected %r got %r in %r' % (x, r, ' '.join(s.t)))
    def done(s): return s.i >= len(s.t)

    def type(s):
        t = s.peek()
        if t == 'void': s.next(); ty = VoidTy()
        elif re.fullmatch(r'i[0-9]+', t): s.next(); ty = IntTy(int(t[1:]))
        elif t in ('float', 'double', 'x86_fp80', 'half'): s.next(); ty = FloatTy(t)
        elif t == 'metadata': s.next(); ty = MetaTy()
        elif t == 'ptr': s.next(); ty = PtrTy(IntTy(8))
        elif t[0] == '%': s.next(); ty = NamedTy(t)
        elif t == '[':
            s.next(); n = int(s.next()); s.expect('x'); el = s.type(); s.expect(']'); ty = ArrTy(n, el)
        elif t == '{':
            s.next(); els = []
            if not s.accept('}'):
                while True:
                    els.append(s.type())
                    if s.accept('}'): break
                    s.expect(',')
            ty = StructTy(els)
        elif t == '<' and s.peek(1) == '{':
            s.next(); s.next(); els = []
            if not s.accept('}'):
                while True:
                    els.append(s.type())
                    if s.accept('}'): break
                    s.expect(',')
            s.expect('>'); ty = StructTy(els, True)
        elif t == 'opaque': s.next(); ty = StructTy([])
        else: raise SyntaxError('type? %r in %r' % (t, ' '.join(s.t)))
        while True:
            if s.peek() == '*': s.next(); ty = PtrTy(ty)
            elif s.peek() == '(':
                s.next(); args = []; va = False
                if not s.accept(')'):
                    while True:
                        if s.accept('...'): va = True
                        else: args.append(s.type())
                        if s.accept(')'): break
                        s.expect(',')
                ty = FnTy(ty, args, va)
            else: break
        return ty

PARAM_ATTRS = {'noundef','nonnull','nocapture','readonly','writeonly','noalias','signext','zeroext',
  'returned','immarg','readnone','inreg','nest','swiftself','nofree','undef_ok'}
def skip_param_attrs(p):
    while True:
        t = p.peek()
        if t in PARAM_ATTRS: p.next()
        elif t in ('align','dereferenceable','dereferenceable_or_null'):
            p.next()
            if p.accept('('): p.next(); p.expect(')')
            else: p.next()
        elif t in ('sret','byval','byref','inalloca','preallocated','elementtype'):
            p.next()
            if p.accept('('): p.type(); p.expect(')')
        else: break

def _starts_type(t):
    return t in ('void','float','double','ptr','{','[','<','metadata') or re.fullmatch(r'i[0-9]+', t) or t[0] == '%'

# ---------------------------------------------------------------- module
class Module:
    def __init__(s):
        s.types = collections.OrderedDict()   # name -> Ty
        s.globals = collections.OrderedDict() # name -> (ty, init tokens or None, const)
        s.funcs = collections.OrderedDict()   # name -> Func
        s.decls = collections.OrderedDict()   # name -> (ret, [argty], va, attrs)
        s.attrs = {}
class Func:
    def __init__(s): s.blocks = collections.OrderedDict(); s.params = []; s.ret = None; s.name = None; s.va = False; s.attrs = ''

def parse_module(text):
    m = Module()
    lines = text.split('\n')
    i = 0
    while i < len(lines):
        ln = lines[i]; i += 1
        st = ln.strip()
        if not st or st[0] == ';' : continue
        if st.startswith(('source_filename','target ','$','!')) : continue
        if st.startswith('attributes '):
            mm = re.match(r'attributes (#\d+) = \{(.*)\}', st)
            m.attrs[mm.group(1)] = mm.group(2)
            continue
        if st.startswith('%') and ' = type ' in st:
            name, rest = st.split(' = type ', 1)
            m.types[name.strip()] = P(tokenize(rest)).type()
            continue
        if st.startswith('@'):
            toks = tokenize(st)
            p = P(toks); name = p.next(); p.expect('=')
            ext = False
            while p.peek() not in ('global', 'constant'):
                if p.peek() in ('external','extern_weak'): ext = True
                if p.peek() in ('alias', 'ifunc'): break
                p.next()
            if p.peek() in ('alias', 'ifunc'): continue
            const = p.next() == 'constant'
            ty = p.type()
            init = None
            if not ext:
                depth = 0; j = p.i
                while j < len(toks):
                    t = toks[j]
                    if len(t) == 1 and t in '([{<': depth += 1
                    elif len(t) == 1 and t in ')]}>': depth -= 1
                    elif t == ',' and depth == 0: break
                    j += 1
                init = toks[p.i:j]
            m.globals[name] = (ty, init, const)
            continue
        if st.startswith('declare '):
            toks = tokenize(st[len('declare '):])
            p = P(toks)
            while p.peek() and not _starts_type(p.peek()): p.next()
            skip_param_attrs(p)
            ret = p.type(); name = p.next(); p.expect('(')
            args = []; va = False
            if not p.accept(')'):
                while True:
                    if p.accept('...'): va = True
                    else:
                        args.append(p.type()); skip_param_attrs(p)
                        if p.peek() and p.peek()[0] == '%': p.next()
                    if p.accept(')'): break
                    p.expect(',')
            attrs = ' '.join(toks[p.i:])
            m.decls[name] = (ret, args, va, attrs)
            continue
        if st.startswith('define '):
            toks = tokenize(st[len('define '):].rstrip('{').strip())
            p = P(toks)
            while p.peek() and not _starts_type(p.peek()): p.next()
            skip_param_attrs(p)
            f = Func(); f.ret = p.type(); f.name = p.next(); p.expect('(')
            if not p.accept(')'):
                while True:
                    if p.accept('...'): f.va = True
                    else:
                        ty = p.type(); skip_param_attrs(p); nm = p.next(); f.params.append((ty, nm))
                    if p.accept(')'): break
                    p.expect(',')
            f.attrs = ' '.join(toks[p.i:])
            nparam = sum(1 for _, nm in f.params if re.fullmatch(r'%[0-9]+', nm))
            cur = '%' + str(nparam)
            f.blocks[cur] = []
            while True:
                ln = lines[i]; i += 1
                s2 = ln.strip()
                if s2 == '}': break
                if not s2 or s2[0] == ';': continue
                mm = re.match(r'^([-a-zA-Z$._0-9]+|"[^"]*"):', s2)
                if mm:
                    cur = '%' + mm.group(1); f.blocks[cur] = []; continue
                full = s2
                if s2.startswith('invoke ') or re.match(r'^%\S+ = invoke ', s2):
                    while ' unwind label ' not in full:
                        full += ' ' + lines[i].strip(); i += 1
                elif ' = landingpad ' in s2:
                    while i < len(lines) and re.match(r'^\s+(catch|cleanup|filter)\b', lines[i]):
                        full += ' ' + lines[i].strip(); i += 1
                elif s2.startswith('switch '):
                    while ']' not in full:
                        full += ' ' + lines[i].strip(); i += 1
                f.blocks[cur].append(tokenize(full))
            m.funcs[f.name] = f
            continue
        raise SyntaxError('module line? ' + st[:80])
    return m

def cname(n):
    n = n.strip('@"')
    if n.startswith('llvm.'): return 'LLVM_' + san(n)
    return san(n)

# ---------------------------------------------------------------- layout (x86-64 SysV as in the IR datalayout)
class Layout:
    def __init__(s, m): s.m = m; s.cache = {}
    def resolve(s, ty):
        while isinstance(ty, NamedTy): ty = s.m.types[ty.name]
        return ty
    def size_align(s, ty):
        k = ty.key()
        if k in s.cache: return s.cache[k]
        r = s._sa(ty); s.cache[k] = r; return r
    def _sa(s, ty):
        ty = s.resolve(ty)
        if isinstance(ty, IntTy):
            b = ty.bits
            n = 1 if b <= 8 else 2 if b <= 16 else 4 if b <= 32 else 8 if b <= 64 else 16
            return n, n
        if isinstance(ty, FloatTy): return {'float': (4, 4), 'double': (8, 8), 'half': (2, 2)}.get(ty.n, (16, 16))
        if isinstance(ty, PtrTy): return 8, 8
        if isinstance(ty, ArrTy):
            sz, al = s.size_align(ty.el); return sz * ty.n, al
        if isinstance(ty, StructTy):
            off = 0; mal = 1
            for e in ty.els:
                sz, al = s.size_align(e)
                if ty.packed: al = 1
                off = (off + al - 1) // al * al + sz; mal = max(mal, al)
            off = (off + mal - 1) // mal * mal
            return off, mal
        raise TypeError('size of %r' % ty)

# ---------------------------------------------------------------- emitter
INT_BIN = {'add':'+','sub':'-','mul':'*','and':'&','or':'|','xor':'^','shl':'<<','lshr':'>>','udiv':'/','urem':'%'}
ICMP = {'eq':'==','ne':'!=','ugt':'>','uge':'>=','ult':'<','ule':'<=','sgt':'>','sge':'>=','slt':'<','sle':'<='}
FCMP = {'oeq':'==','one':'!=','ogt':'>','oge':'>=','olt':'<','ole':'<=','ueq':'==','une':'!=','ugt':'>','uge':'>=','ult':'<','ule':'<='}

# runtime functions implemented in rt/vf_rt.c with fixed C prototypes (never re-declared from IR)
RT_FUNCS = {'vf_in_u32','vf_assume','vf_assert','vf_witness','vf_obs','vf_allocate','vf_deallocate','vf_live_blocks',
  'vf_block_is','vf_nalloc','vf_ndealloc','vf_last_alloc_id','vf_last_alloc_n','vf_max_alloc_n','vf_ptr_in_object','vf_ptr_eq',
  'vf_fault_arm','vf_fault_disarm','vf_fault','vf_faults_fired','vf_fault_points',
  'vf_tr_make','vf_tr_default','vf_tr_copy','vf_tr_move','vf_tr_cassign','vf_tr_massign','vf_tr_swap','vf_tr_dtor',
  'vf_tr_state','vf_tr_touch','vf_tr_val','vf_tr_live','vf_tr_events','vf_tr_count',
  'vf_stream_init','vf_stream_cursor','vf_stream_deref','vf_stream_inc','vf_stream_cmp','vf_stream_derefs','vf_stream_incs','vf_stream_len',
  'vf_deallocate_unsized'}
# external C++ runtime functions that are modelled as no-ops (exception object ctors/dtors)
NOOP_EXTERNALS = {'_ZNSt12length_errorC1EPKc','_ZNSt12length_errorD1Ev','_ZNSt12out_of_rangeC1EPKc','_ZNSt12out_of_rangeD1Ev',
  '_ZNSt9bad_allocD1Ev','_ZNSt20bad_array_new_lengthD1Ev', '_ZNSt11logic_errorC1EPKc', '_ZNSt11logic_errorD1Ev'}
THROW_HELPERS = {'_ZSt20__throw_length_errorPKc':'_ZTISt12length_error', '_ZSt20__throw_out_of_rangePKc':'_ZTISt12out_of_range',
  '_ZSt17__throw_bad_allocv':'_ZTISt9bad_alloc', '_ZSt28__throw_bad_array_new_lengthv':'_ZTISt20bad_array_new_length',
  '_ZSt24__throw_out_of_range_fmtPKcz':'_ZTISt12out_of_range'}

TR_HOOK = re.compile(r'vf_tr_(make|default|copy|move|cassign|massign|dtor|state|touch|val)_(\w+)')

class Emit:
    def __init__(s, m, elems):
        s.m = m; s.typedefs = collections.OrderedDict(); s.lay = Layout(m)
        s.elems = elems          # element IR types (hints for retyping / memcpy lowering)
        s.copy_helpers = collections.OrderedDict()   # key -> (kind, cty, size)
        s.tids = {}
        s.notes = collections.Counter()

    def tid(s, sym):
        if sym not in s.tids: s.tids[sym] = len(s.tids) + 1
        return s.tids[sym]

    def resolve(s, ty): return s.lay.resolve(ty)
    def sizeof(s, ty): return s.lay.size_align(ty)[0]

    def cty(s, ty):
        if isinstance(ty, IntTy):
            b = ty.bits
            if b == 1: return 'u1'
            if b <= 8: return 'u8'
            if b <= 16: return 'u16'
            if b <= 32: return 'u32'
            if b <= 64: return 'u64'
            return 'u128'
        if isinstance(ty, VoidTy): return 'void'
        if isinstance(ty, FloatTy): return {'float':'float','double':'double'}.get(ty.n, 'long double')
        if isinstance(ty, PtrTy):
            if isinstance(ty.to, FnTy): return 'fnptr_t'
            if isinstance(ty.to, VoidTy): return 'u8*'
            return s.cty(ty.to) + '*'
        if isinstance(ty, NamedTy): return 'struct ' + 'T_' + san(ty.name)
        if isinstance(ty, (ArrTy, StructTy)):
            k = 'L_' + ty.key()
            if k not in s.typedefs: s.typedefs[k] = ty
            return 'struct ' + k
        if isinstance(ty, FnTy): return 'fnptr_t'
        raise TypeError(ty)

    def struct_body(s, ty):
        ty = s.resolve(ty)
        if isinstance(ty, ArrTy):
            return '{ %s a[%d]; }' % (s.cty(ty.el), max(ty.n, 1))
        if not ty.els: return '{ u8 opaque_; }'
        return '{ ' + ' '.join('%s f%d;' % (s.cty(e), i) for i, e in enumerate(ty.els)) + ' }' + \
               (' __attribute__((packed))' if ty.packed else '')

    # ---- constants / operands
    def operand(s, p, ty):
        t = p.next()
        rt = s.resolve(ty)
        if t[0] == '%': return 'v_' + san(t)
        if t[0] == '@': return s.globref(t)
        if t == 'null': return '((%s)0)' % s.cty(ty)
        if t in ('undef', 'poison', 'zeroinitializer'):
            if isinstance(rt, (IntTy, PtrTy, FloatTy)): return '((%s)0)' % s.cty(ty)
            return '((%s){0})' % s.cty(ty)
        if t == 'true': return '((u1)1)'
        if t == 'false': return '((u1)0)'
        if re.fullmatch(r'-?[0-9]+', t):
            v = int(t)
            if isinstance(rt, IntTy):
                v &= (1 << rt.bits) - 1
                return '((%s)%dULL)' % (s.cty(ty), v) if rt.bits <= 64 else '((u128)%dULL)' % v
            if isinstance(rt, FloatTy): return '((%s)%d.0)' % (s.cty(ty), v)
            return str(v)
        if re.fullmatch(r'-?[0-9]+\.[0-9]+(e[+-]?[0-9]+)?', t): return '((%s)%s)' % (s.cty(ty), t)
        if t.startswith('0x') and isinstance(rt, FloatTy):
            import struct
            bits = int(t[2:], 16)
            return '((%s)%r)' % (s.cty(ty), struct.unpack('>d', bits.to_bytes(8, 'big'))[0])
        if t in ('getelementptr', 'bitcast', 'ptrtoint', 'inttoptr', 'addrspacecast'):
            return s.constexpr(t, p, ty)
        raise SyntaxError('operand? %r' % t)

    def globref(s, name):
        if name in s.m.funcs or name in s.m.decls:
            return '((fnptr_t)&%s)' % cname(name)
        return '(&G_%s)' % san(name)

    def constexpr(s, op, p, ty):
        if op == 'getelementptr':
            p.accept('inbounds'); p.expect('(')
            bty = p.type(); p.expect(',')
            pty = p.type(); base = s.operand(p, pty)
            idx = []
            while p.accept(','):
                p.accept('inrange')
                ity = p.type(); idx.append((ity, s.operand(p, ity)))
            p.expect(')')
            return s.gep(bty, base, idx)[0]
        p.expect('('); fty = p.type(); v = s.operand(p, fty); p.expect('to'); tty = p.type(); p.expect(')')
        return '((%s)%s)' % (s.cty(tty), v)

    def gep(s, bty, base, idx):
        ity, i0 = idx[0]
        if re.fullmatch(r'\(\(u(8|16|32|64)\)0ULL\)', i0): e = base
        elif re.fullmatch(r'\(\(u(8|16|32|64)\)\d+ULL\)', i0): e = '(%s + %s)' % (base, s.sx(ity, i0))
        else: e = '(%s ? %s + %s : %s)' % (i0, base, s.sx(ity, i0), base)   # p + 0 is defined even for a null p
        cur = bty
        if len(idx) == 1: return e, cur
        path = ''
        rest = idx[1:]
        for n_, (ity, ix) in enumerate(rest):
            r = s.resolve(cur)
            mm = re.fullmatch(r'\(\(u(?:8|16|32|64)\)(\d+)ULL\)', ix)
            if isinstance(r, StructTy) and mm and ity.key() == 'i32':
                k = int(mm.group(1)); path += '.f%d' % k; cur = r.els[k]
            elif isinstance(r, ArrTy):
                s.cty(cur); path += '.a[%s]' % s.sx(ity, ix); cur = r.el
            else:
                # walked into a retyped byte buffer: remaining indices must all be zero -> byte pointer to its start
                if all(re.fullmatch(r'\(\(u(?:8|16|32|64)\)0ULL\)', x) for _, x in rest[n_:]):
                    s.notes['gep into retyped buffer'] += 1
                    return '((u8*)&(*%s)%s)' % (e, path), IntTy(8)
                if len(rest[n_:]) == 1:
                    # byte offset into a retyped byte buffer
                    s.notes['gep into retyped buffer (byte offset)'] += 1
                    return '(((u8*)&(*%s)%s) + %s)' % (e, path, s.sx(ity, ix)), IntTy(8)
                raise TypeError('gep into %r with %r' % (r, ix))
        return '(&(*%s)%s)' % (e, path), cur

    def sx(s, ity, e):
        r = s.resolve(ity)
        st = {8:'i8',16:'i16',32:'i32',64:'i64'}.get(r.bits)
        if st is None: return e
        return '(%s)%s' % (st, e)

    # ---- typed copy helpers
    def copy_helper(s, kind, ety):
        """kind in copy/move/set; returns C function name"""
        cty = s.cty(ety); key = re.sub(r'[^A-Za-z0-9_]', '_', cty)
        name = 'vf_%s_%s' % (kind, key)
        s.copy_helpers[name] = (kind, cty, s.sizeof(ety), isinstance(s.resolve(ety), IntTy))
        return name

def element_of(E, ty):
    """element type to use for a typed copy when the pointee type is ty"""
    r = E.resolve(ty)
    while isinstance(r, ArrTy):
        ty = r.el; r = E.resolve(ty)
    if isinstance(r, StructTy) and len(r.els) == 1:
        # single-member wrappers (retyped unions): use the member
        return element_of(E, r.els[0])
    if isinstance(r, (IntTy, PtrTy, FloatTy, StructTy)): return ty
    return None

def translate(m, elems):
    E = Emit(m, elems)
    fn_text = []; protos = []
    nounwind_fns = set()
    for name, f in m.funcs.items():
        if fn_nounwind(m, f.attrs): nounwind_fns.add(name)
    for name, (ret, args, va, attrs) in m.decls.items():
        if fn_nounwind(m, attrs): nounwind_fns.add(name)
    E.nounwind_fns = nounwind_fns

    for name, f in m.funcs.items():
        vt = {}
        for ty, nm in f.params: vt[nm] = ty
        lines = []; decls = collections.OrderedDict(); allocas = []
        origin = {}    # i8* value -> pointee type it was cast from
        ptrptr = {}    # value (X** bitcast to i8**) -> X
        def setv(nm, ty):
            vt[nm] = ty; decls['v_' + san(nm)] = E.cty(ty)
        def zero(ty):
            r = E.resolve(ty)
            if isinstance(r, VoidTy): return ''
            if isinstance(r, (IntTy, PtrTy, FloatTy)): return '(%s)0' % E.cty(ty)
            return '(%s){0}' % E.cty(ty)
        retzero = zero(f.ret)
        phis = {b: [] for b in f.blocks}
        for b, ins in f.blocks.items():
            for t in ins:
                if len(t) > 2 and t[1] == '=' and t[2] == 'phi':
                    p = P(t[3:]); ty = p.type(); inc = []
                    while True:
                        p.expect('[')
                        depth = 0; j = p.i
                        while not (p.t[j] == ',' and depth == 0):
                            if p.t[j] in ('(', '['): depth += 1
                            if p.t[j] in (')', ']'): depth -= 1
                            j += 1
                        valtoks = p.t[p.i:j]; p.i = j; p.expect(','); lab = p.next(); p.expect(']')
                        inc.append((valtoks, lab))
                        if not p.accept(','): break
                    phis[b].append((t[0], ty, inc))
        def edge(frm, to):
            ps = phis[to]; out = []
            if ps:
                tmp = []
                for k, (dst, ty, inc) in enumerate(ps):
                    for valtoks, lab in inc:
                        if lab == frm:
                            val = E.operand(P(list(valtoks)), ty)
                            out.append('%s phi_t%d = %s;' % (E.cty(ty), k, val))
                            tmp.append('v_%s = phi_t%d;' % (san(dst), k))
                            break
                    else:
                        raise KeyError('phi edge %s->%s in %s' % (frm, to, name))
                out += tmp
            out.append('goto L_%s;' % san(to))
            return '{ ' + ' '.join(out) + ' }'
        ctx = dict(E=E, f=f, lines=lines, setv=setv, vt=vt, edge=edge, retzero=retzero, phis=phis,
                   origin=origin, ptrptr=ptrptr, allocas=allocas)
        # pre-pass: alloca retyping evidence (byte arrays bitcast to element pointers)
        ctx['alloca_retype'] = alloca_retypes(E, f)
        for b, ins in f.blocks.items():
            lines.append('L_%s: ;' % san(b))
            for t in ins:
                try:
                    s_ins(ctx, b, t)
                except Exception as ex:
                    raise RuntimeError('in %s: %s: %s\n  %s' % (name, type(ex).__name__, ex, ' '.join(t)))
        ret = E.cty(f.ret)
        params = ', '.join('%s v_%s' % (E.cty(ty), san(nm)) for ty, nm in f.params) or 'void'
        proto = '%s %s(%s)' % (ret, cname(name), params)
        protos.append(proto + ';')
        txt = [proto, '{']
        for a in allocas: txt.append('  ' + a)
        for v, ty in decls.items(): txt.append('  %s %s;' % (ty, v))
        txt += ['  ' + l for l in lines]
        txt.append('}')
        fn_text.append('\n'.join(txt))
    # declarations
    stubs = []; tr_types = set()
    for name, (ret, args, va, attrs) in m.decls.items():
        cn = cname(name); base = name.strip('@"')
        if base.startswith('llvm.') or base in RT_FUNCS or base in BUILTIN_DECLS or base in THROW_HELPERS: continue
        mm = TR_HOOK.fullmatch(base)
        if mm:
            tr_types.add(mm.group(2)); continue
        sig = '%s %s(%s)' % (E.cty(ret), cn, ', '.join('%s a%d' % (E.cty(a), i) for i, a in enumerate(args)) or 'void')
        if base in NOOP_EXTERNALS:
            stubs.append('static %s { %s }' % (sig, ('return %s;' % ('(%s)0' % E.cty(ret))) if not isinstance(ret, VoidTy) else ''))
        else:
            raise RuntimeError('unmodelled external function: %s' % base)
    # globals
    gl = []
    for name, (ty, init, const) in m.globals.items():
        n = 'G_' + san(name); base = name.strip('@"')
        if base.startswith(('_ZTI', '_ZTS', '_ZTV')):
            gl.append('static u8 %s[16];' % n); continue
        cty = E.cty(ty)
        if init is None:
            gl.append('extern %s %s;' % (cty, base if base.startswith('vf_') else n))
            if base.startswith('vf_'): gl.append('#define %s %s' % (n, base))
            continue
        gl.append('static %s %s = %s;' % (cty, n, ginit(E, ty, P(list(init)))))
    # struct definitions
    hdr = [PRELUDE]
    allbodies = collections.OrderedDict()
    for n, ty in m.types.items(): allbodies['T_' + san(n)] = ty
    done = False
    while not done:
        before = len(E.typedefs)
        for k, ty in list(E.typedefs.items()): E.struct_body(ty)
        for n, ty in m.types.items(): E.struct_body(ty)
        done = len(E.typedefs) == before
    for k, ty in E.typedefs.items(): allbodies[k] = ty
    for k in allbodies: hdr.append('struct %s;' % k)
    emitted = set()
    def deps(ty):
        r = E.resolve(ty) if isinstance(ty, NamedTy) else ty
        out = []
        els = [r.el] if isinstance(r, ArrTy) else r.els
        for e in els:
            if isinstance(e, NamedTy): out.append('T_' + san(e.name))
            elif isinstance(e, (ArrTy, StructTy)): out.append('L_' + e.key())
        return out
    def emit_ty(k):
        if k in emitted: return
        emitted.add(k)
        ty = allbodies[k]
        for d in deps(ty): emit_ty(d)
        hdr.append('struct %s %s;' % (k, E.struct_body(ty)))
        r = E.resolve(ty)
        if not (isinstance(r, StructTy) and not r.els) and not (isinstance(r, ArrTy) and r.n == 0):
            hdr.append('_Static_assert(sizeof(struct %s) == %d, "layout of %s");' % (k, E.sizeof(ty), k))
    for k in list(allbodies): emit_ty(k)
    helpers = []
    for hname, (kind, cty, size, isint) in E.copy_helpers.items():
        if kind == 'copy':
            helpers.append('static void %s(u8 *d, u8 *s, u64 len) { %s *dd = (%s*)d; %s *ss = (%s*)s; u64 k = len / %d; '
              'VF_RT_ASSERT(len %% %d == 0, "translator: memcpy length not a multiple of the element size"); '
              'for (u64 i = 0; i < k; i++) dd[i] = ss[i]; }' % (hname, cty, cty, cty, cty, size, size))
        elif kind == 'move':
            helpers.append('static void %s(u8 *d, u8 *s, u64 len) { %s *dd = (%s*)d; %s *ss = (%s*)s; u64 k = len / %d; '
              'VF_RT_ASSERT(len %% %d == 0, "translator: memmove length not a multiple of the element size"); '
              'if ((u64)dd <= (u64)ss) { for (u64 i = 0; i < k; i++) dd[i] = ss[i]; } '
              'else { for (u64 i = k; i > 0; i--) dd[i-1] = ss[i-1]; } }' % (hname, cty, cty, cty, cty, size, size))
        elif kind == 'talloc':
            zero = '0' if cty.startswith('u') or cty.endswith('*') or cty in ('float', 'double') else '(%s){0}' % cty
            cases = '\n'.join('#if VF_MAXALLOC >= %d && VF_MINALLOC <= %d && ((VF_ALLOCMASK >> %d) & 1)\n    case %d: p = (%s*)malloc(sizeof(%s) * %d); __CPROVER_assume(p != 0); %s break;\n#endif' % (k, k, k, k, cty, cty, max(k, 1), ' '.join('p[%d] = %s;' % (i, zero) for i in range(max(k, 1)))) for k in range(0, 25))
            cases = cases.replace('XX', '')
            helpers.append('#ifndef VF_MAXALLOC\n#define VF_MAXALLOC 24\n#endif\n#ifndef VF_MINALLOC\n#define VF_MINALLOC 0\n#endif\n#ifndef VF_ALLOCMASK\n#define VF_ALLOCMASK 0xffffffffu\n#endif\n'
              'static u8 *%s(u64 n) {\n  VF_RT_ASSERT(n <= VF_MAXALLOC, "bound: allocation request exceeds the modelled block size bound");\n'
              '#ifdef __CPROVER__\n  %s *p = 0; VF_RT_ASSERT(n >= VF_MINALLOC, "bound: allocation request below the modelled minimum block size"); VF_RT_ASSERT(n > 31 || ((VF_ALLOCMASK >> n) & 1), "bound: allocation request of a size outside the modelled set of block sizes"); __CPROVER_assume(n <= VF_MAXALLOC && n >= VF_MINALLOC && ((VF_ALLOCMASK >> n) & 1));\n  switch (n) {\n%s\n    default: break; }\n  return (u8*)p;\n'
              '#else\n  return (u8*)calloc(n ? n : 1, sizeof(%s));\n#endif\n}' % (hname, cty, cases, cty))
        elif kind == 'set':
            if isint:
                rep = {1: '(u8)b', 2: '(u16)((u16)b * 0x0101u)', 4: '(u32)((u32)b * 0x01010101u)', 8: '(u64)((u64)b * 0x0101010101010101ULL)'}[size]
                helpers.append('static void %s(u8 *d, u8 b, u64 len) { %s *dd = (%s*)d; u64 k = len / %d; '
                  'VF_RT_ASSERT(len %% %d == 0, "translator: memset length not a multiple of the element size"); '
                  'for (u64 i = 0; i < k; i++) dd[i] = %s; }' % (hname, cty, cty, size, size, rep))
            else:
                helpers.append('static void %s(u8 *d, u8 b, u64 len) { %s *dd = (%s*)d; u64 k = len / %d; '
                  'VF_RT_ASSERT(len %% %d == 0 && b == 0, "translator: memset of struct elements must be zero and a multiple of the element size"); '
                  'for (u64 i = 0; i < k; i++) dd[i] = (%s){0}; }' % (hname, cty, cty, size, size, cty))
    hooks = []
    if tr_types:
        hooks.append('#define VF_HOOK_ASSERT(c, m) VF_HASSERT(c, m)\n#define VF_F_VAL(p) ((p)->f0)\n#define VF_F_ST(p) ((p)->f1)\n#define VF_F_TOUCH(p) ((p)->f2)')
        for tn in sorted(tr_types):
            if '%struct.' + tn not in m.types: raise RuntimeError('hook type %s has no struct' % tn)
            hooks.append('#define VF_TR_TYPE struct T_struct_2e%s\n#define VF_TR_NAME %s\n#include "vf_tr_impl.h"' % (tn, tn))
    return ('\n'.join(hdr) + '\n' + '\n'.join(hooks) + '\n' + '\n'.join(protos) + '\n' + '\n'.join(stubs) + '\n' + '\n'.join(gl) + '\n' +
            '\n'.join(helpers) + '\n\n' + '\n\n'.join(fn_text) + '\n'), E

def fn_nounwind(m, attrs):
    toks = attrs.split()
    if 'nounwind' in toks: return True
    for t in toks:
        if t.startswith('#') and 'nounwind' in m.attrs.get(t, '').split(): return True
    return False

def alloca_retypes(E, f):
    """byte-array allocas that are only ever used as storage for one element type: {name: elemTy}"""
    byte_allocas = {}
    for b, ins in f.blocks.items():
        for t in ins:
            if len(t) > 3 and t[1] == '=' and t[2] == 'alloca':
                ty = P(t[3:]).type(); r = E.resolve(ty)
                if isinstance(r, ArrTy) and isinstance(E.resolve(r.el), IntTy) and E.resolve(r.el).bits == 8:
                    byte_allocas[t[0]] = r.n
    if not byte_allocas: return {}
    # direct bitcasts of the alloca, or bitcasts of a zero-GEP of it
    alias = {a: a for a in byte_allocas}; cand = collections.defaultdict(set)
    for b, ins in f.blocks.items():
        for t in ins:
            if len(t) > 3 and t[1] == '=' and t[2] == 'getelementptr':
                p = P(t[3:]); p.accept('inbounds'); p.type(); p.expect(','); p.type(); base = p.next()
                rest = p.t[p.i:]
                idx = [x for x in rest if re.fullmatch(r'-?\d+', x)]
                if base in alias and all(x == '0' for x in idx) and '%' not in ''.join(rest): alias[t[0]] = alias[base]
            if len(t) > 3 and t[1] == '=' and t[2] == 'bitcast':
                p = P(t[3:]); p.type(); src = p.next(); p.expect('to'); tty = p.type()
                if src in alias and isinstance(tty, PtrTy): cand[alias[src]].add(tty.to)
    out = {}
    for a, n in byte_allocas.items():
        tys = [ty for ty in cand.get(a, ()) if not (isinstance(E.resolve(ty), IntTy) and E.resolve(ty).bits == 8)]
        good = [ty for ty in tys if E.sizeof(ty) == n]
        if len(set(g.key() for g in good)) == 1: out[a] = good[0]
        else:
            for e in E.elems:
                if E.sizeof(e) == n and n > 1: out[a] = e; break
    return out

def ginit(E, ty, p):
    t = p.peek()
    if t.startswith('c"'):
        p.next(); raw = t[2:-1]; bs = []; i = 0
        while i < len(raw):
            if raw[i] == '\\':
                if raw[i+1] == '\\': bs.append(92); i += 2
                else: bs.append(int(raw[i+1:i+3], 16)); i += 3
            else: bs.append(ord(raw[i])); i += 1
        return '{ {' + ','.join(map(str, bs)) + '} }'
    if t == 'zeroinitializer': p.next(); return '{0}'
    if t in ('{', '[', '<'):
        close = {'{':'}','[':']','<':'>'}[p.next()]
        if t == '<': p.expect('{')
        els = []
        if p.peek() != close and p.peek() != '}':
            while True:
                ety = p.type(); els.append(ginit(E, ety, p))
                if not p.accept(','): break
        if t == '<': p.expect('}')
        p.expect(close)
        if t == '[': return '{ {' + ', '.join(els) + '} }'
        return '{ ' + ', '.join(els) + ' }'
    return E.operand(p, ty)

def cstring_of(E, expr):
    mm = re.search(r'G_(\w+)', expr or '')
    if not mm: return None
    for gname, (gty, gi, gc) in E.m.globals.items():
        if san(gname) == mm.group(1) and gi and gi[0].startswith('c"'):
            return gi[0][2:-1].replace('\\00', '').replace('\\22', "'").replace('\\', '/')
    return None

def s_ins(ctx, b, t):
    E = ctx['E']; f = ctx['f']; lines = ctx['lines']; setv = ctx['setv']; vt = ctx['vt']; edge = ctx['edge']
    retzero = ctx['retzero']; origin = ctx['origin']; ptrptr = ctx['ptrptr']
    p = P(t); dst = None
    if len(t) > 1 and t[1] == '=':
        dst = p.next(); p.next()
    op = p.next()
    while op in ('tail', 'musttail', 'notail'): op = p.next()
    def assign(ty, expr):
        setv(dst, ty); lines.append('v_%s = %s;' % (san(dst), expr))
    if op == 'phi':
        ty = P(t[3:]).type(); setv(dst, ty)
        # origin through phi: only if all incoming agree
        return
    if op in INT_BIN or op in ('sdiv', 'srem', 'ashr'):
        while p.peek() in ('nuw', 'nsw', 'exact'): p.next()
        ty = p.type(); a = E.operand(p, ty); p.expect(','); bb = E.operand(p, ty)
        r = E.resolve(ty); c = E.cty(ty)
        if op in ('sdiv', 'srem', 'ashr'):
            sop = {'sdiv':'/','srem':'%','ashr':'>>'}[op]
            sty = {8:'i8',16:'i16',32:'i32',64:'i64'}[r.bits]
            assign(ty, '(%s)((%s)%s %s (%s)%s)' % (c, sty, a, sop, sty if op != 'ashr' else c, bb))
        else:
            if r.bits in (8, 16):  # avoid int promotion surprises
                e = '(%s)((u32)%s %s (u32)%s)' % (c, a, INT_BIN[op], bb)
            else:
                e = '(%s)(%s %s %s)' % (c, a, INT_BIN[op], bb)
            if r.bits == 1: e = '(%s & 1)' % e
            assign(ty, e)
        return
    if op in ('fadd', 'fsub', 'fmul', 'fdiv'):
        while p.peek() in ('fast','nnan','ninf','nsz','arcp','contract','afn','reassoc'): p.next()
        ty = p.type(); a = E.operand(p, ty); p.expect(','); bb = E.operand(p, ty)
        assign(ty, '(%s %s %s)' % (a, {'fadd':'+','fsub':'-','fmul':'*','fdiv':'/'}[op], bb)); return
    if op == 'fneg':
        ty = p.type(); a = E.operand(p, ty); assign(ty, '(-%s)' % a); return
    if op == 'icmp':
        pred = p.next(); ty = p.type(); a = E.operand(p, ty); p.expect(','); bb = E.operand(p, ty)
        r = E.resolve(ty)
        if pred[0] == 's' and isinstance(r, IntTy):
            a = E.sx(ty, a); bb = E.sx(ty, bb)
        if isinstance(r, PtrTy):
            if pred not in ('eq', 'ne'): a = '(u64)' + a; bb = '(u64)' + bb
            else: a = '(u8*)' + a; bb = '(u8*)' + bb
        assign(IntTy(1), '(u1)(%s %s %s)' % (a, ICMP[pred], bb)); return
    if op == 'fcmp':
        while p.peek() in ('fast','nnan','ninf','nsz','arcp','contract','afn','reassoc'): p.next()
        pred = p.next(); ty = p.type(); a = E.operand(p, ty); p.expect(','); bb = E.operand(p, ty)
        assign(IntTy(1), '(u1)(%s %s %s)' % (a, FCMP[pred], bb)); return
    if op == 'select':
        cty_ = p.type(); c = E.operand(p, cty_); p.expect(','); ty = p.type(); a = E.operand(p, ty); p.expect(','); ty2 = p.type(); bb = E.operand(p, ty2)
        assign(ty, '(%s ? %s : %s)' % (c, a, bb)); return
    if op in ('zext', 'trunc', 'ptrtoint', 'inttoptr', 'bitcast', 'addrspacecast', 'freeze', 'fptosi', 'fptoui', 'sitofp', 'uitofp', 'fpext', 'fptrunc'):
        fty = p.type(); src_tok = p.peek(); v = E.operand(p, fty)
        if op == 'freeze': assign(fty, v); return
        p.expect('to'); tty = p.type()
        rt = E.resolve(tty); rf = E.resolve(fty)
        e = '((%s)%s)' % (E.cty(tty), v)
        if op == 'trunc' and rt.bits == 1: e = '((u1)(%s & 1))' % v
        if op in ('fptosi', 'sitofp'):
            if op == 'fptosi':
                sty = {8:'i8',16:'i16',32:'i32',64:'i64'}[rt.bits]; e = '((%s)(%s)%s)' % (E.cty(tty), sty, v)
            else:
                e = '((%s)%s)' % (E.cty(tty), E.sx(fty, v))
        if op == 'bitcast' and isinstance(rf, PtrTy) and isinstance(rt, PtrTy):
            # byte-array alloca retyped: the bitcast result is the element pointer
            if isinstance(rt.to, IntTy) and rt.to.bits == 8:
                origin[dst] = rf.to
                if isinstance(rf.to, PtrTy): ptrptr[dst] = rf.to.to
            elif isinstance(rt.to, PtrTy) and isinstance(rt.to.to, IntTy) and rt.to.to.bits == 8 and isinstance(rf.to, PtrTy):
                ptrptr[dst] = rf.to.to
        assign(tty, e); return
    if op == 'sext':
        fty = p.type(); v = E.operand(p, fty); p.expect('to'); tty = p.type()
        rf = E.resolve(fty); rt = E.resolve(tty)
        sty = {8:'i8',16:'i16',32:'i32',64:'i64'}[rt.bits]
        if rf.bits == 1: e = '((%s)(%s ? -1 : 0))' % (E.cty(tty), v)
        else: e = '((%s)(%s)%s)' % (E.cty(tty), sty, E.sx(fty, v))
        assign(tty, e); return
    if op == 'getelementptr':
        p.accept('inbounds'); bty = p.type(); p.expect(','); pty = p.type(); base = E.operand(p, pty)
        idx = []
        while p.accept(','):
            ity = p.type(); idx.append((ity, E.operand(p, ity)))
        e, rty = E.gep(bty, base, idx)
        assign(PtrTy(rty), e); return
    if op == 'load':
        p.accept('volatile'); ty = p.type(); p.expect(','); pty = p.type(); ptok = p.peek(); ptr = E.operand(p, pty)
        if ptok in ptrptr and isinstance(ty, PtrTy): origin[dst] = ptrptr[ptok]
        assign(ty, '(*%s)' % ptr); return
    if op == 'store':
        p.accept('volatile'); ty = p.type(); v = E.operand(p, ty); p.expect(','); pty = p.type(); ptr = E.operand(p, pty)
        lines.append('*%s = %s;' % (ptr, v)); return
    if op == 'alloca':
        ty = p.type(); nm = 'al_' + san(dst)
        rt_ = ctx['alloca_retype'].get(dst)
        if rt_ is not None:
            E.notes['alloca retyped'] += 1
            if isinstance(E.resolve(rt_), (IntTy, PtrTy, FloatTy)): ctx['allocas'].append('%s %s = 0;' % (E.cty(rt_), nm))
            else: ctx['allocas'].append('%s %s = {0};' % (E.cty(rt_), nm))
            assign(PtrTy(ty), '(%s*)&%s' % (E.cty(ty), nm)); return
        r = E.resolve(ty)
        if isinstance(r, (IntTy, PtrTy, FloatTy)): ctx['allocas'].append('%s %s = 0;' % (E.cty(ty), nm))
        else: ctx['allocas'].append('%s %s = {0};' % (E.cty(ty), nm))
        assign(PtrTy(ty), '&' + nm); return
    if op == 'extractvalue':
        ty = p.type(); v = E.operand(p, ty); path = ''; cur = ty
        while p.accept(','):
            k = int(p.next()); r = E.resolve(cur)
            if isinstance(r, ArrTy): path += '.a[%d]' % k; cur = r.el
            else: path += '.f%d' % k; cur = r.els[k]
        assign(cur, '%s%s' % (v, path)); return
    if op == 'insertvalue':
        ty = p.type(); v = E.operand(p, ty); p.expect(','); ety = p.type(); ev = E.operand(p, ety); path = ''
        cur = ty
        while p.accept(','):
            k = int(p.next()); r = E.resolve(cur)
            if isinstance(r, ArrTy): path += '.a[%d]' % k; cur = r.el
            else: path += '.f%d' % k; cur = r.els[k]
        setv(dst, ty)
        lines.append('v_%s = %s; v_%s%s = %s;' % (san(dst), v, san(dst), path, ev)); return
    if op == 'br':
        if p.accept('label'):
            lines.append(edge(b, p.next())); return
        cty_ = p.type(); c = E.operand(p, cty_); p.expect(','); p.expect('label'); l1 = p.next(); p.expect(','); p.expect('label'); l2 = p.next()
        lines.append('if (%s) %s else %s' % (c, edge(b, l1), edge(b, l2))); return
    if op == 'switch':
        ty = p.type(); v = E.operand(p, ty); p.expect(','); p.expect('label'); dflt = p.next(); p.expect('[')
        cases = []
        while not p.accept(']'):
            cty_ = p.type(); cv = E.operand(p, cty_); p.expect(','); p.expect('label'); cases.append((cv, p.next()))
        s_ = ''
        for cv, lab in cases: s_ += 'if (%s == %s) %s else ' % (v, cv, edge(b, lab))
        lines.append(s_ + edge(b, dflt)); return
    if op == 'ret':
        ty = p.type()
        if isinstance(ty, VoidTy): lines.append('return;')
        else: lines.append('return %s;' % E.operand(p, ty))
        return
    if op == 'unreachable':
        lines.append('VF_UNREACHABLE();' + (' return %s;' % retzero)); return
    if op == 'resume':
        ty = p.type(); v = E.operand(p, ty)
        lines.append('vf_exc_active = 1; vf_exc_obj = %s.f0; vf_exc_sel = (int)%s.f1; return %s;' % (v, v, retzero)); return
    if op == 'landingpad':
        ty = p.type(); setv(dst, ty)
        lines.append('v_%s.f0 = (u8*)vf_exc_obj; v_%s.f1 = (u32)vf_exc_sel; vf_exc_active = 0;' % (san(dst), san(dst)))
        return
    if op in ('call', 'invoke'):
        while not _starts_type(p.peek()): p.next()
        skip_param_attrs(p)
        rty = p.type()
        if isinstance(rty, FnTy): rty = rty.ret
        callee = p.next()
        if callee[0] != '@': raise NotImplementedError('indirect call')
        p.expect('(')
        args = []; argtys = []; argtoks = []
        if not p.accept(')'):
            while True:
                aty = p.type(); skip_param_attrs(p)
                if isinstance(aty, MetaTy):
                    # skip metadata operand
                    depth = 0
                    while not (depth == 0 and p.peek() in (',', ')')):
                        if p.peek() == '(': depth += 1
                        if p.peek() == ')': depth -= 1
                        p.next()
                    args.append(None); argtys.append(aty); argtoks.append(None)
                else:
                    argtoks.append(p.peek()); args.append(E.operand(p, aty)); argtys.append(aty)
                if p.accept(')'): break
                p.expect(',')
        # call-site attributes
        site_nounwind = False
        while p.peek() is not None and p.peek() not in ('to',) and not p.peek().startswith('!') and p.peek() != ',':
            a = p.next()
            if a == 'nounwind' or (a.startswith('#') and 'nounwind' in E.m.attrs.get(a, '').split()): site_nounwind = True
        cn = cname(callee); base = callee.strip('@"')
        stmt = None; throws = not (site_nounwind or callee in E.nounwind_fns)
        if TR_HOOK.fullmatch(base): throws = False
        if base.startswith('llvm.'):
            throws = False
            if base.startswith(('llvm.lifetime', 'llvm.dbg', 'llvm.experimental.noalias', 'llvm.assume', 'llvm.invariant')):
                stmt = ';'
            elif base.startswith(('llvm.memcpy', 'llvm.memmove')):
                stmt = lower_memcpy(ctx, 'move' if 'memmove' in base else 'copy', args, argtoks)
            elif base.startswith('llvm.memset'):
                stmt = lower_memset(ctx, args, argtoks)
            elif base == 'llvm.eh.typeid.for':
                mm = re.search(r'G_(\w+)', args[0]); assign(rty, '((u32)%d)' % E.tid(mm.group(1))); return
            elif base.startswith(('llvm.umax','llvm.umin')):
                o = '>' if 'umax' in base else '<'
                assign(rty, '(%s %s %s ? %s : %s)' % (args[0], o, args[1], args[0], args[1])); return
            elif base.startswith(('llvm.smax','llvm.smin')):
                o = '>' if 'smax' in base else '<'
                a0 = E.sx(argtys[0], args[0]); a1 = E.sx(argtys[1], args[1])
                assign(rty, '(%s %s %s ? %s : %s)' % (a0, o, a1, args[0], args[1])); return
            elif base.startswith('llvm.abs'):
                a0 = E.sx(argtys[0], args[0]); assign(rty, '((%s)(%s < 0 ? -%s : %s))' % (E.cty(rty), a0, a0, a0)); return
            elif base.startswith('llvm.umul.with.overflow'):
                setv(dst, rty); bits = E.resolve(argtys[0]).bits
                if bits == 64:
                    lines.append('{ unsigned __int128 w_ = (unsigned __int128)%s * (unsigned __int128)%s; v_%s.f0 = (u64)w_; v_%s.f1 = (w_ >> 64) != 0; }' % (args[0], args[1], san(dst), san(dst)))
                else:
                    lines.append('{ u64 w_ = (u64)%s * (u64)%s; v_%s.f0 = (%s)w_; v_%s.f1 = (w_ >> %d) != 0; }' % (args[0], args[1], san(dst), E.cty(argtys[0]), san(dst), bits))
                return
            elif base.startswith('llvm.uadd.with.overflow') or base.startswith('llvm.usub.with.overflow'):
                setv(dst, rty); c = E.cty(argtys[0]); o = '+' if 'uadd' in base else '-'
                cmp_ = '<' if 'uadd' in base else '>'
                lines.append('{ %s w_ = (%s)(%s %s %s); v_%s.f0 = w_; v_%s.f1 = (u1)(w_ %s %s); }' % (c, c, args[0], o, args[1], san(dst), san(dst), cmp_, args[0]))
                return
            elif base == 'llvm.trap': stmt = 'VF_UNREACHABLE();'
            elif base.startswith('llvm.expect'): assign(rty, args[0]); return
            elif base.startswith(('llvm.stacksave',)): assign(rty, '((u8*)0)'); return
            elif base.startswith(('llvm.stackrestore',)): stmt = ';'
            else: raise NotImplementedError(base)
        elif base == '__cxa_throw':
            mm = re.search(r'G_(\w+)', args[1])
            stmt = 'vf_throw(%s, %d);' % (args[0], E.tid(mm.group(1))); throws = True
        elif base == '__cxa_rethrow':
            stmt = 'vf_rethrow();'; throws = True
        elif base in THROW_HELPERS:
            stmt = 'vf_throw((void*)0, %d);' % E.tid(san('@' + THROW_HELPERS[base])); throws = True
        elif base in ('__clang_call_terminate', '_ZSt9terminatev'):
            stmt = 'vf_terminate();'; throws = False
        elif base == '__cxa_begin_catch':
            assign(rty, 'vf_begin_catch(%s)' % args[0]); return
        elif base == '__cxa_end_catch': stmt = 'vf_end_catch();'; throws = False
        elif base == '__cxa_allocate_exception': assign(rty, 'vf_alloc_exception(%s)' % args[0]); return
        elif base == '__cxa_free_exception': stmt = 'vf_free_exception(%s);' % args[0]; throws = False
        elif base == 'vf_allocate' and const_of(args[2]) is not None:
            esz = const_of(args[2]); ety = None
            for e in E.elems:
                if E.sizeof(e) == esz: ety = e; break
            if ety is None and esz in (1, 2, 4, 8): ety = IntTy(esz * 8)
            if ety is not None:
                E.notes['typed allocation %s' % E.cty(ety)] += 1
                assign(rty, '(u8*)vf_ledger_add(%s, %s, %s(%s))' % (args[0], args[1], E.copy_helper('talloc', ety), args[1])); return
        elif base == 'vf_assert':
            msg = cstring_of(E, args[1])
            if msg is None: raise RuntimeError('vf_assert with a non-literal message (merged call sites?): cannot attribute the assertion')
            stmt = 'VF_ASSERT(%s, "%s");' % (args[0], msg); throws = False
        elif base == 'vf_witness':
            msg = cstring_of(E, args[0])
            if msg is None: raise RuntimeError('vf_witness with a non-literal message (merged call sites?)')
            stmt = 'VF_WITNESS("witness: %s");' % msg; throws = False
        elif base in ('_Znwm', '_Znam'):
            # std::allocator<T>::allocate(n) = operator new(n * sizeof(T)): typed block of n elements of the first configured element type
            if not E.elems: raise RuntimeError('operator new without a configured element type')
            ety = E.elems[0]; esz = E.sizeof(ety)
            E.notes['operator new -> typed allocation %s' % E.cty(ety)] += 1
            setv(dst, rty)
            lines.append('VF_RT_ASSERT(%s %% %d == 0, "translator: operator new size is not a multiple of the element size"); v_%s = (u8*)vf_ledger_add(0, %s / %d, %s(%s / %d));' % (args[0], esz, san(dst), args[0], esz, E.copy_helper('talloc', ety), args[0], esz))
            if op == 'invoke':
                p.expect('to'); p.expect('label'); ln = p.next(); p.expect('unwind'); p.expect('label'); lu = p.next()
                lines.append(edge(b, ln))
            return
        elif base in ('_ZdlPv', '_ZdaPv', '_ZdlPvm', '_ZdaPvm'):
            stmt = 'vf_deallocate_unsized((void*)%s);' % args[0]; throws = False
        if stmt is None:
            cargs = []
            for a, aty in zip(args, argtys):
                if a is None: continue
                cargs.append(a)
            if base in RT_FUNCS:
                # fixed prototypes: cast pointer args to void*
                cargs = [('(void*)' + a) if isinstance(E.resolve(aty), PtrTy) else a for a, aty in zip(args, argtys) if a is not None]
                throws = False
            call = '%s(%s)' % (cn, ', '.join(cargs))
            if dst is not None and not isinstance(rty, VoidTy):
                setv(dst, rty)
                if base in RT_FUNCS and isinstance(E.resolve(rty), PtrTy): call = '(%s)%s' % (E.cty(rty), call)
                stmt = 'v_%s = %s;' % (san(dst), call)
            else: stmt = call + ';'
        lines.append(stmt)
        if op == 'invoke':
            p.expect('to'); p.expect('label'); ln = p.next(); p.expect('unwind'); p.expect('label'); lu = p.next()
            if throws: lines.append('if (vf_exc_active) %s else %s' % (edge(b, lu), edge(b, ln)))
            else: lines.append(edge(b, ln))
        else:
            if throws: lines.append('if (vf_exc_active) return %s;' % retzero)
        return
    raise NotImplementedError(op)

def pick_elem(ctx, toks, const_len):
    """choose the element type for a typed copy; returns (elemTy, wholeTy or None)"""
    E = ctx['E']; origin = ctx['origin']
    cands = []
    for tk in toks:
        if tk in origin: cands.append(origin[tk])
    # whole-object assignment when the constant length equals the size of an origin type
    if const_len is not None:
        for c in cands:
            try:
                if E.sizeof(c) == const_len: return None, c
            except Exception: pass
    # symbolic length (or no whole-object match): the true copy unit is unknown in general (clang may have retyped an alloca, e.g.
    # int[2] -> i64). Any unit that divides the true unit is semantically exact; take the SMALLEST non-byte unit among the
    # origin types and the configured element types (a too-small unit only costs speed, a too-large one fails the length check).
    opts = []
    for c in cands:
        e = element_of(E, c)
        if e is not None and not (isinstance(E.resolve(e), IntTy) and E.resolve(e).bits == 8): opts.append(e)
    for e in E.elems: opts.append(e)   # a configured one-byte element type (bool, char) is a legitimate unit
    if const_len is not None: opts = [e for e in opts if const_len % E.sizeof(e) == 0]
    if opts:
        opts.sort(key=lambda e: E.sizeof(e))
        return opts[0], None
    return IntTy(8), None

def const_of(expr):
    mm = re.fullmatch(r'\(\(u64\)(\d+)ULL\)', expr)
    return int(mm.group(1)) if mm else None

def unit_for(E, ety, cl):
    """element type for a constant-length copy: the picked type if it divides the length, else the widest integer unit"""
    if ety is not None and cl % E.sizeof(ety) == 0 and not isinstance(E.resolve(ety), (PtrTy,)): return ety
    for b in (8, 4, 2, 1):
        if cl % b == 0: return IntTy(b * 8)

def lower_memcpy(ctx, kind, args, argtoks):
    E = ctx['E']
    d, s_, ln = args[0], args[1], args[2]
    cl = const_of(ln)
    ety, whole = pick_elem(ctx, [argtoks[0], argtoks[1]], cl)
    if whole is not None:
        c = E.cty(whole); E.notes['memcpy->struct assignment'] += 1
        return '{ %s tmp_ = *(%s*)%s; *(%s*)%s = tmp_; }' % (c, c, s_, c, d)
    if cl is not None:
        if cl == 0: return ';'
        u = unit_for(E, ety, cl); k = cl // E.sizeof(u)
        if k <= 32:
            c = E.cty(u); E.notes['mem%s const->unrolled %s' % ('move' if kind == 'move' else 'cpy', c)] += 1
            rd = ' '.join('%s t%d_ = ss_[%d];' % (c, i, i) for i in range(k)); wr = ' '.join('dd_[%d] = t%d_;' % (i, i) for i in range(k))
            return '{ %s *dd_ = (%s*)%s; %s *ss_ = (%s*)%s; %s %s }' % (c, c, d, c, c, s_, rd, wr)
        ety = u
    E.notes['mem%s->typed loop %s' % ('move' if kind == 'move' else 'cpy', E.cty(ety))] += 1
    return '%s((u8*)%s, (u8*)%s, %s);' % (E.copy_helper(kind, ety), d, s_, ln)

def lower_memset(ctx, args, argtoks):
    E = ctx['E']
    d, bv, ln = args[0], args[1], args[2]
    cl = const_of(ln); zero = bv in ('((u8)0ULL)',)
    ety, whole = pick_elem(ctx, [argtoks[0]], cl)
    if whole is not None and zero:
        c = E.cty(whole); r = E.resolve(whole)
        if isinstance(r, (IntTy, PtrTy, FloatTy)): return '*(%s*)%s = (%s)0;' % (c, d, c)
        return '*(%s*)%s = (%s){0};' % (c, d, c)
    if whole is not None: ety = element_of(E, whole) or IntTy(8)
    if cl is not None:
        if cl == 0: return ';'
        u = unit_for(E, ety, cl)
        if not isinstance(E.resolve(u), IntTy) and not zero: u = unit_for(E, None, cl)
        k = cl // E.sizeof(u)
        if k <= 32:
            c = E.cty(u); r = E.resolve(u); E.notes['memset const->unrolled %s' % c] += 1
            if isinstance(r, IntTy):
                rep = {1: '(u8)%s', 2: '(u16)((u16)%s * 0x0101u)', 4: '(u32)((u32)%s * 0x01010101u)', 8: '(u64)((u64)%s * 0x0101010101010101ULL)'}[E.sizeof(u)] % bv
            else: rep = '(%s){0}' % c
            return '{ %s *dd_ = (%s*)%s; %s }' % (c, c, d, ' '.join('dd_[%d] = %s;' % (i, rep) for i in range(k)))
        ety = u
    r = E.resolve(ety)
    if not isinstance(r, IntTy) and not zero: ety = IntTy(8)
    if isinstance(r, (PtrTy, FloatTy)): ety = IntTy(8)
    E.notes['memset->typed loop %s' % E.cty(ety)] += 1
    return '%s((u8*)%s, %s, %s);' % (E.copy_helper('set', ety), d, bv, ln)

BUILTIN_DECLS = {'__cxa_throw','__cxa_rethrow','__cxa_begin_catch','__cxa_end_catch',
  '__cxa_allocate_exception','__cxa_free_exception','__gxx_personality_v0','_ZSt9terminatev','__clang_call_terminate',
  '_Znwm','_Znam','_ZdlPv','_ZdaPv','_ZdlPvm','_ZdaPvm'}

PRELUDE = r'''
#include <stdint.h>
#include <stdlib.h>
typedef unsigned char u1; typedef uint8_t u8; typedef uint16_t u16; typedef uint32_t u32; typedef uint64_t u64;
typedef unsigned __int128 u128;
typedef int8_t i8; typedef int16_t i16; typedef int32_t i32; typedef int64_t i64;
typedef void (*fnptr_t)(void);
#include "vf_rt.h"
extern int vf_exc_active; extern int vf_exc_sel; extern void *vf_exc_obj;
void vf_throw(void *obj, int tid); void vf_rethrow(void); void vf_terminate(void);
u8 *vf_begin_catch(u8 *); void vf_end_catch(void); u8 *vf_alloc_exception(u64); void vf_free_exception(u8 *);
#ifdef __CPROVER__
#define VF_ASSERT(c, m) __CPROVER_assert((c), m)
#define VF_WITNESS(m) __CPROVER_assert(0, m)
#define VF_HASSERT(c, m) __CPROVER_assert((c), m)
#define VF_RT_ASSERT(c, m) __CPROVER_assert((c), m)
#define VF_UNREACHABLE() do { __CPROVER_assert(0, "translator: llvm unreachable reached"); __CPROVER_assume(0); } while (0)
#else
#include <stdio.h>
#define VF_ASSERT(c, m) vf_assert((c), m)
#define VF_WITNESS(m) vf_witness(m)
#define VF_HASSERT(c, m) vf_check((c), m)
#define VF_RT_ASSERT(c, m) vf_check((c), m)
#define VF_UNREACHABLE() do { printf("ASSERT-FAIL: translator: llvm unreachable reached\n"); abort(); } while (0)
#endif
'''

def apply_retypes(m, elems):
    """re-declare byte buffers that hold elements with the element type of equal size"""
    lay = Layout(m); notes = []
    def byte_array(ty):
        r = lay.resolve(ty)
        return isinstance(r, ArrTy) and isinstance(lay.resolve(r.el), IntTy) and lay.resolve(r.el).bits == 8
    def match(n, align_hint=None):
        for e in elems:
            if lay.size_align(e)[0] == n: return e
        return None
    # unions used as inline_storage elements: %"class.gch::detail::inline_storage*" = { [N x %union.anon*] }
    for name, ty in list(m.types.items()):
        if 'inline_storage' in name and isinstance(ty, StructTy) and len(ty.els) == 1 and isinstance(ty.els[0], ArrTy):
            u = ty.els[0].el
            if isinstance(u, NamedTy):
                ub = m.types[u.name]
                if isinstance(ub, StructTy) and len(ub.els) == 1 and byte_array(ub.els[0]):
                    e = match(lay.resolve(ub.els[0]).n)
                    if e is not None:
                        m.types[u.name] = StructTy([e]); notes.append('%s -> {%s}' % (u.name, e.key()))
        if ('stack_temporary' in name) and isinstance(ty, StructTy):
            for i, fty in enumerate(ty.els):
                if byte_array(fty):
                    e = match(lay.resolve(fty).n)
                    if e is not None:
                        ty.els[i] = e; notes.append('%s.f%d -> %s' % (name, i, e.key())); break
    return notes

def main(argv):
    src, dst = argv[1], argv[2]
    elems = []; info = None
    i = 3
    while i < len(argv):
        if argv[i] == '--elem': elems.append(P(tokenize(argv[i+1])).type()); i += 2
        elif argv[i] == '--info': info = argv[i+1]; i += 2
        else: raise SystemExit('bad arg ' + argv[i])
    m = parse_module(open(src).read())
    elems = [e for e in elems if not isinstance(e, NamedTy) or e.name in m.types]
    notes = apply_retypes(m, elems)
    c, E = translate(m, elems)
    open(dst, 'w').write(c)
    if info:
        json.dump({'functions': list(m.funcs.keys()), 'typeids': E.tids, 'retyped': notes,
                   'lowering': dict(E.notes)}, open(info, 'w'), indent=1)

if __name__ == '__main__':
    main(sys.argv)
