#!/usr/bin/env python3
"""Regenerate /verif/MANIFEST.json from the property registry (vf/props.py)."""
import json, os, sys
sys.path.insert(0, os.path.dirname(os.path.dirname(os.path.abspath(__file__))))
from vf import props as P

VERIF = os.path.dirname(os.path.dirname(os.path.abspath(__file__)))
props = [json.loads(l) for l in open(os.path.join(VERIF, 'properties.jsonl'))]

LEVEL_NOTE = ('Bounded (see evidence coverage.bounds); trusted base: clang++-14 -O1 code generation, tools/ll2c.py IR->C translation (validated per run by differential '
              'execution against the real C++ and by layout static-asserts), rt/ environment stubs, cbmc 6.11 + MiniSat. Counterexamples are replayed natively (clang++ and g++, ASan+UBSan) before a VIOLATION is printed.')

checks = []; na = []
for p in props:
    pid = p['id']
    if pid in P.REG:
        s = P.REG[pid]
        checks.append({
            'property_id': pid,
            'quick_cmd': 'python3 run.py --property %s --tier quick' % pid,
            'thorough_cmd': 'python3 run.py --property %s --tier thorough' % pid,
            'evidence_file': '/verif/evidence/%s.json' % pid,
            'replay_cmd_template': 'python3 run.py --replay {path}',
            'engine': 'll2c+cbmc' if not s.custom else s.engine,
            'level_claimed': {'category': s.level, 'text': s.level_text or ('Bounded symbolic model checking of the real header (every input within the stated bounds, decided by a SAT solver; bounds in evidence.coverage.bounds). ' + s.explanation), 'design_ref': 'DESIGN.md section 5 (%s)' % pid},
            'level_note': s.level_note or LEVEL_NOTE,
            'technique': s.technique or 'bounded symbolic execution of the real header (clang LLVM IR -> C -> cbmc/SAT), one operation from an arbitrary valid pre-state, unwinding assertions on',
        })
    else:
        na.append({'property_id': pid, 'reason': P.NOT_APPLICABLE.get(pid, 'check not built yet (framework under construction)')})

m = {
    'version': 1,
    'setup_cmd': 'python3 tools/selfcheck.py',
    'hooks': {'guard': 'GCH_SMALL_VECTOR_VERIF', 'enable': 'no source hooks are needed: harness translation units reach private state with clang -fno-access-control and constant-evaluation branches with a macro shim; nothing in /repo is guarded',
              'baseline_off_cmd': 'cmake --build /repo/_build -j14 && ctest --test-dir /repo/_build -j8 --timeout 900', 'source_commits': [], 'add_only': True},
    'engines': [
        {'name': 'll2c+cbmc', 'path': '/verif/run.py', 'serves_properties': [c['property_id'] for c in checks if c['engine'] == 'll2c+cbmc'],
         'kind_free_text': 'clang++-14 -O1 LLVM IR of harness+header -> tools/ll2c.py -> C -> cbmc 6.11 bounded model checking (SAT), native replay of counterexamples'},
        {'name': 'z3-layout', 'path': '/verif/tools/c19.py', 'serves_properties': [c['property_id'] for c in checks if c['engine'] == 'z3-layout'],
         'kind_free_text': 'z3 over the default_buffer_size formula extracted from clang\'s AST + a validated Itanium layout model'},
    ],
    'checks': checks,
    'not_applicable': na,
    'notes': 'Solver-based checking of the real code. See DESIGN.md. known_findings.txt lists fixed and known defects; seeded/ holds confirmed breaking changes used to test the checks.',
}
json.dump(m, open(os.path.join(VERIF, 'MANIFEST.json'), 'w'), indent=1)
print('claimed:', [c['property_id'] for c in checks]); print('not applicable:', [x['property_id'] for x in na])
