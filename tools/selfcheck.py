#!/usr/bin/env python3
"""setup_cmd: nothing to build (pure python + installed tools); verify the tool chain is present."""
import shutil, subprocess, sys, os
need = ['clang++-14', 'clang-14', 'gcc', 'g++', 'cbmc', 'z3']
missing = [t for t in need if shutil.which(t) is None]
if missing: print('missing tools:', missing); sys.exit(1)
v = subprocess.run(['cbmc', '--version'], stdout=subprocess.PIPE, text=True).stdout.strip()
print('cbmc', v)
os.makedirs(os.path.join(os.path.dirname(os.path.dirname(os.path.abspath(__file__))), 'build'), exist_ok=True)
print('ok')
