#!/usr/bin/env python3
"""Driver: decide one property by bounded symbolic checking of the real header.

  run.py --property C01 --tier quick|thorough [--jobs N] [--no-cache] [--only SUBSTR]
  run.py --replay /verif/replays/<file>.json

exit 0: property held on everything explored (known findings are listed, not alarms)
exit 1: VIOLATION property=<id> replay=<path>
exit 2: framework error (build / translation / vacuity / bound too small): nothing is claimed
"""
import os, sys, json, time, argparse, re, concurrent.futures as cf
sys.path.insert(0, os.path.dirname(os.path.abspath(__file__)))
from vf import engine as E
from vf import props as P

VERIF = E.VERIF
KNOWN = os.path.join(VERIF, 'known_findings.txt')
EVDIR = os.environ.get('VERIF_EVIDENCE_DIR') or os.path.join(VERIF, 'evidence')   # seed experiments redirect evidence and replays
REPLAYS = os.path.join(os.environ['VERIF_EVIDENCE_DIR'], 'replays') if os.environ.get('VERIF_EVIDENCE_DIR') else os.path.join(VERIF, 'replays')

def load_known():
    known = []; fixed = []
    if os.path.exists(KNOWN):
        for ln in open(KNOWN):
            ln = ln.strip()
            if not ln or ln.startswith('#'): continue
            m = re.match(r'known: property=(\S+) key=(.*?) :: (.*)$', ln)
            if m: known.append({'property': m.group(1), 'key': m.group(2).strip(), 'what': m.group(3)}); continue
            m = re.match(r'fixed: property=(\S+) (\S+) (.*)$', ln)
            if m: fixed.append({'property': m.group(1), 'commit': m.group(2), 'what': m.group(3)})
    return known, fixed

def finding_key(job, msg):
    d = job['defs']
    parts = [job['harness'], str(d.get('VF_OP', d.get('VF_CASE', '-'))).replace('OP_', ''), str(d.get('VF_ELEM', '-')), msg]
    return '/'.join(parts)

def key_matches(pattern, key):
    # pattern segments may be '*'
    ps = pattern.split('/', 3); ks = key.split('/', 3)
    if len(ps) != len(ks): return False
    return all(p == '*' or p == k for p, k in zip(ps, ks))

def classify(pid, spec, jr):
    """split one job's results into violations / witnesses / framework problems"""
    out = {'violations': [], 'memsafety': [], 'bound': [], 'framework': [], 'witness_reached': set(), 'decided': 0, 'decided_tagged': 0, 'other_tag_failures': []}
    tags = spec.tags
    for r in jr.get('results', []):
        desc = r['desc'] or ''; st = r['status']
        if desc.startswith('witness: '):
            if st == 'FAILURE': out['witness_reached'].add(desc[len('witness: '):])
            continue
        out['decided'] += 1
        m = re.match(r'^(C\d\d): ', desc)
        if m:
            if m.group(1) in tags or (getattr(spec, 'also', ()) and desc.startswith(spec.also)):
                out['decided_tagged'] += 1
                if st == 'FAILURE': out['violations'].append(r)
            elif st == 'FAILURE': out['other_tag_failures'].append(desc)
            continue
        if st != 'FAILURE': continue
        if 'unwinding assertion' in desc or desc.startswith('bound: '): out['bound'].append(r)
        elif desc.startswith(('rt: ', 'translator: ')): out['framework'].append(r)
        else: out['memsafety'].append(r)
    return out

def main():
    ap = argparse.ArgumentParser()
    ap.add_argument('--property'); ap.add_argument('--tier', default=os.environ.get('VERIF_TIER', 'quick'))
    ap.add_argument('--jobs', type=int, default=int(os.environ.get('VERIF_JOBS', '0')))
    ap.add_argument('--no-cache', action='store_true'); ap.add_argument('--only'); ap.add_argument('--replay')
    ap.add_argument('--list', action='store_true'); ap.add_argument('--no-validate', action='store_true')
    a = ap.parse_args()
    if a.replay: return do_replay(a.replay)
    pid = a.property; tier = a.tier if a.tier in ('quick', 'thorough') else 'quick'
    seed = int(os.environ.get('VERIF_SEED', '1'))
    spec = P.get(pid)
    t0 = time.time()
    if spec.custom: return spec.custom(pid, tier, seed, a)
    jobs = spec.jobs(tier)
    seen_names = set(); jobs = [j for j in jobs if not (j.name in seen_names or seen_names.add(j.name))]   # one job per name: two jobs must never share a work directory
    if a.only: jobs = [j for j in jobs if a.only in j.name]
    if a.list:
        for j in jobs: print(j.name)
        print(len(jobs), 'jobs'); return 0
    nworkers = a.jobs or max(2, min(12, (os.cpu_count() or 4) - 3))
    prop_dir = os.path.join(E.BUILD, pid + ('' if E.REPO == '/repo' else '@' + re.sub(r'\W', '_', E.REPO)[-40:])); os.makedirs(prop_dir, exist_ok=True)   # separate work directories per source tree
    use_cache = not (a.no_cache or os.environ.get('VERIF_NO_CACHE'))
    print('[%s] %s tier: %d bounded symbolic checks, %d workers' % (pid, tier, len(jobs), nworkers), flush=True)
    results = {}
    # a few jobs also report the header functions encoded (debug-info pass) and run the translator validation
    nval = len(jobs) if tier == 'thorough' else min(len(jobs), spec.quick_validate)
    stride = max(1, len(jobs) // max(nval, 1))
    val_names = set(j.name for j in jobs[::stride][:nval]) if not a.no_validate else set()
    def work(j):
        r = E.run_job(j, prop_dir, use_cache=use_cache, want_functions=(j.name in val_names))
        if j.name in val_names and not r.get('error'):
            r['validation'] = E.validate_translation(j, prop_dir, seed, nvec=60 if tier == 'quick' else 150)
        return j, r
    with cf.ThreadPoolExecutor(max_workers=nworkers) as ex:
        futs = [ex.submit(work, j) for j in jobs]
        done = 0
        for f in cf.as_completed(futs):
            j, r = f.result(); results[j.name] = (j, r); done += 1
            st = r.get('error') or ('%s symex %.0fs solver %.0fs%s' % (r.get('cbmc_status'), r['stats']['symex_s'], r['stats']['solver_s'], ' (cached formula)' if r.get('cached') else ''))
            print('  [%d/%d] %s: %s' % (done, len(jobs), j.name, st[:300]), flush=True)

    known, fixed = load_known()
    violations = []; known_hits = []; framework = []; undecided = []; unconfirmed = []
    decided = 0; decided_tagged = 0; n_cached = 0; symex_s = 0.0; solver_s = 0.0; queries = 0
    functions = set(); samples = []; witnesses = 0; validation = {'jobs': 0, 'vectors': 0, 'valid': 0, 'mismatch': 0, 'native_fail': 0}
    os.makedirs(REPLAYS, exist_ok=True)
    for name in sorted(results):
        j, r = results[name]
        if r.get('error'):
            if r['error'].startswith('undecided'): undecided.append({'job': name, 'why': r['error'][:300]})
            elif spec.compile_failure_is_violation and r['error'].startswith('clang failed'):
                em = re.search(r'error: ([^\n]*)', r['error']); fm_ = re.search(r'small_vector\.hpp:\d+:\d+: note: in instantiation of [^\n]*?::(\w+)<', r['error'])
                sig = (em.group(1).strip() if em else 'error') + (' via ' + fm_.group(1) if fm_ else '')
                violations.append({'job': j.ident(), 'msg': '%s: configuration does not compile (%s)' % (pid, sig[:120]), 'inputs': None, 'confirmed': True, 'detail': r['error'][-1500:]})
            else: framework.append({'job': name, 'why': r['error'][:2000]})
            continue
        c = classify(pid, spec, r)
        n_cached += 1 if r.get('cached') else 0
        decided += c['decided']; decided_tagged += c['decided_tagged']
        symex_s += r['stats']['symex_s']; solver_s += r['stats']['solver_s']; queries += r['stats']['solver_calls']
        for fn in r['info']['functions']:
            if 'gch' in fn: functions.add(fn.lstrip('@'))
        for fn in r.get('gch_functions', []): functions.add('inlined:' + fn)
        if c['bound']: framework.append({'job': name, 'why': 'bound too small: ' + '; '.join(sorted(set(x['desc'] for x in c['bound']))[:5])})
        if c['framework']: framework.append({'job': name, 'why': 'runtime/translator assertion: ' + '; '.join(sorted(set(x['desc'] for x in c['framework']))[:5])})
        missing = [w for w in j.expect_witness if w not in c['witness_reached']]
        if missing: framework.append({'job': name, 'why': 'vacuity: witness not reachable: %s' % missing})
        witnesses += len(c['witness_reached'])
        v = r.get('validation')
        if v:
            if v.get('error'): framework.append({'job': name, 'why': 'translator validation: ' + v['error'][:500]})
            else:
                validation['jobs'] += 1; validation['vectors'] += v['vectors']; validation['valid'] += v['valid']
                validation['mismatch'] += v['n_mismatch']; validation['native_fail'] += v['n_native_fail']
                if v['n_mismatch']: framework.append({'job': name, 'why': 'translator validation mismatch (translated C vs real C++): %s' % json.dumps(v['mismatches'][:1])[:800]})
                solver_failed = set(x['desc'] for x in r.get('results', []) if x['status'] == 'FAILURE')
                unexpected = [nf for nf in v['native_fails'] if any(fm not in solver_failed for fm in nf['fails']) or (nf['san'] and not solver_failed)]
                if unexpected and not (c['violations'] or c['memsafety']): framework.append({'job': name, 'why': 'the real C++ failed natively an assertion that the solver proved for all inputs (encoding suspect): %s' % json.dumps(unexpected[:1])[:800]})
        if len(samples) < 6:
            samples.append({'check': j.desc, 'config': j.ident()['defs'], 'assertions_decided': c['decided'], 'for_this_property': c['decided_tagged'],
                            'witnesses_reached': sorted(c['witness_reached']), 'solver_s': round(r['stats']['solver_s'], 1), 'variables': r['stats']['variables']})
        fails = list(c['violations']) + (list(c['memsafety']) if spec.memsafe else [])
        seen = set()
        for x in fails:
            msg = x['desc'] if x in c['violations'] else '%s: memory-safety check failed in %s: %s' % (pid, (x.get('fn') or '?')[:60], x['desc'])
            if (msg) in seen: continue
            seen.add(msg)
            rep = E.replay(j, prop_dir, x.get('inputs') or [], want_msg=(x['desc'] if x in c['violations'] else None)) if x.get('inputs') else {'confirmed': False, 'runs': {}, 'other_failure': False}
            rec = {'job': j.ident(), 'msg': msg, 'inputs': x.get('inputs'), 'confirmed': rep['confirmed'], 'builtin': x not in c['violations'],
                   'replay_runs': {k: {kk: vv for kk, vv in v.items() if kk in ('fails', 'san', 'rc', 'error')} for k, v in rep['runs'].items()}}
            if rep['confirmed']: violations.append(rec)
            else: unconfirmed.append(rec)

    # known findings
    final_viol = []
    for v in violations:
        key = finding_key(v['job'], v['msg'])
        hit = [k for k in known if k['property'] == pid and key_matches(k['key'], key)]
        if hit: known_hits.append((hit[0], v, key))
        else: final_viol.append((v, key))
    printed = set()
    for k, v, key in known_hits:
        if k['key'] in printed: continue
        printed.add(k['key']); print('KNOWN-FINDING: property=%s %s [%s]' % (pid, k['what'], k['key']))
    rc = 0
    for vi, (v, key) in enumerate(final_viol):
        path = os.path.join(REPLAYS, '%s_%s_%d.json' % (pid, re.sub(r'[^A-Za-z0-9_.-]', '_', v['job']['name'])[:120], vi))
        json.dump({'property': pid, 'key': key, 'message': v['msg'], 'job': v['job'], 'inputs': v['inputs'], 'replay_runs': v.get('replay_runs'),
                   'detail': v.get('detail'), 'how': 'python3 /verif/run.py --replay ' + path}, open(path, 'w'), indent=1)
        print('VIOLATION property=%s replay=%s' % (pid, path)); print('  ' + v['msg'] + '  [' + key + ']')
        rc = 1
    ub = [u for u in unconfirmed if u['builtin']]
    for u in [u for u in unconfirmed if not u['builtin']] + ub[:3]:
        print('UNCONFIRMED (solver counterexample did not reproduce natively; %s): %s in %s' % ('cbmc pointer-arithmetic check on optimiser-generated code: forming, not dereferencing, an out-of-bounds pointer; not visible to sanitizers, reported separately' if u['builtin'] else 'encoding suspect', u['msg'], u['job']['name']))
    if len(ub) > 3: print('UNCONFIRMED: ... and %d more pointer-arithmetic reports of the same kind (all listed in the evidence file)' % (len(ub) - 3))
    enc_suspect = [u for u in unconfirmed if not u['builtin']]
    if enc_suspect and rc == 0:
        framework.append({'job': enc_suspect[0]['job']['name'], 'why': 'counterexample for "%s" did not reproduce against the real C++: encoding or stub suspect' % enc_suspect[0]['msg']})
    for fw in framework: print('FRAMEWORK-ERROR: %s: %s' % (fw['job'], fw['why'][:1500]))
    for u in undecided: print('UNDECIDED (excluded from the claim): %s: %s' % (u['job'], u['why'][:200]))
    if framework and rc == 0: rc = 2
    if not framework and rc == 0 and len(undecided) == len(jobs) and jobs: rc = 2
    wall = time.time() - t0
    ev = {
        'property_id': pid, 'tier': tier, 'seed': seed, 'level': spec.level,
        'coverage': {
            'evaluations': len(jobs) - len(undecided),
            'distinct_nontrivial': decided_tagged,
            'rule': 'evaluations = bounded symbolic checks (one cbmc run each: one operation from an arbitrary valid pre-state, all sizes/positions/counts/values/throw points symbolic) that reached a verdict; '
                    'distinct_nontrivial = distinct (configuration, assertion) pairs tagged for this property whose verdict was decided by the SAT solver for all inputs within the bounds',
            'samples': samples,
            'explanation': spec.explanation,
            'technique': 'bounded symbolic execution of the real header: clang++-14 -O1 LLVM IR of the harness+header -> tools/ll2c.py -> C -> cbmc 6.11 (MiniSat), unwinding assertions on',
            'functions_encoded': sorted(functions)[:400],
            'bounds': spec.bounds(tier),
            'queries_discharged': queries, 'assertions_decided_total': decided, 'assertions_decided_for_property': decided_tagged,
            'symex_seconds': round(symex_s, 1), 'solver_seconds': round(solver_s, 1),
            'formulas_reused_from_cache': n_cached,
            'witnesses_reached': witnesses,
            'translator_validation': validation,
            'traces_validated_against_impl': validation['valid'],
            'undecided': undecided, 'unconfirmed_counterexamples': [{'msg': u['msg'], 'job': u['job']['name']} for u in unconfirmed],
            'known_findings_hit': [k['key'] for k, _, _ in known_hits],
            'exhaustive': False,
        },
        'assumptions': P.COMMON_ASSUMPTIONS + spec.assumptions,
        'wall_s': round(wall, 1), 'violations': len(final_viol),
    }
    os.makedirs(EVDIR, exist_ok=True)
    json.dump(ev, open(os.path.join(EVDIR, pid + '.json'), 'w'), indent=1)
    print('[%s] %s: %d checks, %d assertions decided for this property (%d in total), %d violations, %d known, %d undecided, %.0f s'
          % (pid, 'HELD' if rc == 0 else ('VIOLATED' if rc == 1 else 'ERROR'), len(jobs), decided_tagged, decided, len(final_viol), len(known_hits), len(undecided), wall))
    return rc

def do_replay(path):
    d = json.load(open(path))
    jd = d['job']
    j = E.Job(jd['name'], jd['harness'], jd['defs'], std=jd['std'], unwind=jd['unwind'])
    prop_dir = os.path.join(E.BUILD, 'replay'); os.makedirs(prop_dir, exist_ok=True)
    if d.get('inputs') is None:
        print(d.get('message')); print(d.get('detail')); return 1
    r = E.replay(j, prop_dir, d['inputs'])
    print(json.dumps(r, indent=1, default=str)[:4000])
    bad = any(('error' not in x) and (x['fails'] or x['san']) for x in r['runs'].values())
    print('REPLAY: %s' % ('violation reproduced' if bad else 'no failure'))
    return 1 if bad else 0

if __name__ == '__main__':
    sys.exit(main())
