/* Verification runtime: environment model shared by the cbmc build and the native builds.
 * See vf_rt.h. */
#include "vf_rt.h"
#include <stdlib.h>
#include <string.h>

typedef uint8_t u8; typedef uint32_t u32; typedef uint64_t u64;

#ifdef __CPROVER__
unsigned nondet_uint(void);
struct vf_inputs; struct vf_inputs nondet_vf_inputs(void);
#define RT_ASSERT(c, m) __CPROVER_assert((c), m)
#else
#include <stdio.h>
static int vf_nfail = 0;
static u64 vf_hash = 1469598103934665603ULL;
static int vf_assume_failed = 0;
static void hmix(u64 x) { if (getenv("VF_TRACE")) printf("H %llx\n", (unsigned long long)x); vf_hash ^= x; vf_hash *= 1099511628211ULL; }
static void rt_fail(const char *m) { vf_nfail++; printf("ASSERT-FAIL: %s\n", m); fflush(stdout); }
#define RT_ASSERT(c, m) do { if (!(c)) rt_fail(m); } while (0)
void vf_check(u32 c, const char *m) { if (!c) rt_fail(m); }
#endif

/* ------------------------------------------------------------------ inputs */
#define VF_NIN 48
struct vf_inputs { u32 a[VF_NIN]; };
struct vf_inputs vf_inputs_v;
#define vf_in vf_inputs_v.a
static u32 vf_in_k = 0;
u32 vf_in_u32(void) {
  RT_ASSERT(vf_in_k < VF_NIN, "rt: too many inputs drawn");
  u32 r = vf_in[vf_in_k < VF_NIN ? vf_in_k : 0]; vf_in_k++;
#ifndef __CPROVER__
  hmix(r);
#endif
  return r;
}
void vf_assume(u32 c) {
#ifdef __CPROVER__
  __CPROVER_assume(c);
#else
  if (!c) { vf_assume_failed = 1; printf("ASSUME-FALSE\n"); printf("HASH %016llx\n", 0ULL); exit(0); }
#endif
}
#ifndef __CPROVER__
void vf_assert(u32 c, const char *msg) { hmix(c ? 11 : 13); if (!c) rt_fail(msg); }
void vf_witness(const char *msg) { printf("WITNESS: %s\n", msg); }
#endif
void vf_obs(u64 x) {
#ifndef __CPROVER__
  hmix(x);
#else
  (void)x;
#endif
}

/* ------------------------------------------------------------------ exception model
 * used only by translated C (builds A and B); harmless in build C */
int vf_exc_active = 0; int vf_exc_sel = 0; void *vf_exc_obj = 0;
int vf_in_catch = 0;
static u64 vf_exc_buf[8];
static void *vf_caught_obj[4]; static int vf_caught_sel[4];
void vf_throw(void *obj, int tid) { vf_exc_active = 1; vf_exc_sel = tid; vf_exc_obj = obj; }
void vf_terminate(void) {
#ifdef __CPROVER__
  __CPROVER_assert(0, "C18: std::terminate reached"); __CPROVER_assume(0);
#else
  printf("ASSERT-FAIL: C18: std::terminate reached\n"); printf("HASH %016llx\n", 0ULL); exit(1);
#endif
}
u8 *vf_begin_catch(u8 *p) {
  RT_ASSERT(vf_in_catch < 4, "rt: catch nesting bound");
  if (vf_in_catch < 4) { vf_caught_obj[vf_in_catch] = vf_exc_obj; vf_caught_sel[vf_in_catch] = vf_exc_sel; }
  vf_in_catch++; return p;
}
void vf_end_catch(void) { if (vf_in_catch > 0) vf_in_catch--; }
void vf_rethrow(void) {
  RT_ASSERT(vf_in_catch > 0, "rt: rethrow outside catch");
  int k = vf_in_catch > 0 ? vf_in_catch - 1 : 0; if (k > 3) k = 3;
  vf_exc_active = 1; vf_exc_obj = vf_caught_obj[k]; vf_exc_sel = vf_caught_sel[k];
}
u8 *vf_alloc_exception(u64 n) { (void)n; return (u8 *)vf_exc_buf; }
void vf_free_exception(u8 *p) { (void)p; }

/* ------------------------------------------------------------------ allocator ledger */
#define NBLK 6
#ifndef VF_MAXALLOC
#define VF_MAXALLOC 24
#endif
static struct blk { u8 *p; u64 n; u32 id; u32 live; } vf_blk[NBLK];
static u32 vf_nalloc_ = 0, vf_ndealloc_ = 0, vf_last_id = 0; static u64 vf_last_n = 0, vf_max_n = 0;

/* the ledger proper: record block p of n elements obtained through allocator id */
void *vf_ledger_add(u32 id, u64 n, void *p) {
#ifndef __CPROVER__
  hmix(0xA110C000ULL + n * 64 + id);
#endif
  vf_nalloc_++; vf_last_id = id; vf_last_n = n; if (n > vf_max_n) vf_max_n = n;
  for (int i = 0; i < NBLK; i++) if (!vf_blk[i].live) {
    vf_blk[i].p = (u8 *)p; vf_blk[i].n = n; vf_blk[i].id = id; vf_blk[i].live = 1; return p; }
  RT_ASSERT(0, "bound: ledger full");
  return p;
}
/* untyped allocation (native builds; in the cbmc build the translator replaces calls to
 * vf_allocate by a typed allocation of exactly n elements + vf_ledger_add, so that heap
 * objects carry the element type: byte-typed objects make every access a byte-extract) */
void *vf_allocate(u32 id, u64 n, u64 elem) {
  u8 *p = 0;
  RT_ASSERT(n <= VF_MAXALLOC, "bound: allocation request exceeds the modelled block size bound");
#ifdef __CPROVER__
  __CPROVER_assume(n <= VF_MAXALLOC);
  switch (n) {
#define C(k) case k: p = calloc(k, elem); break;
    case 0: p = calloc(1, elem); break;
#define C4(k) C(k) C(k+1) C(k+2) C(k+3)
    C4(1) C4(5)
#if VF_MAXALLOC > 8
    C4(9)
#endif
#if VF_MAXALLOC > 12
    C4(13)
#endif
#if VF_MAXALLOC > 16
    C4(17)
#endif
#if VF_MAXALLOC > 20
    C4(21)
#endif
#undef C4
#undef C
    default: p = calloc(1, elem); break;
  }
  __CPROVER_assume(p != 0);
#else
  p = calloc(n ? n : 1, elem);
#endif
  return vf_ledger_add(id, n, p);
}
/* operator delete without a size (std::allocator): the block must be live and owned by the std::allocator owner id 0 */
void vf_deallocate_unsized(void *p) {
  vf_ndealloc_++;
#ifndef __CPROVER__
  hmix(0xDE1E7EULL);
#endif
  for (int i = 0; i < NBLK; i++) if (vf_blk[i].live && vf_blk[i].p == (u8 *)p) {
    RT_ASSERT(vf_blk[i].id == 0, "C04: operator delete on a block that was not obtained from operator new");
    vf_blk[i].live = 0; free(p); return; }
  RT_ASSERT(0, "C04: deallocate of a block that is not live (unknown pointer or double free)");
}
void vf_deallocate(u32 id, void *p, u64 n, u64 elem) {
  (void)elem;
  vf_ndealloc_++;
#ifndef __CPROVER__
  hmix(0xDEA110C0ULL + n * 64 + id);
#endif
  for (int i = 0; i < NBLK; i++) if (vf_blk[i].live && vf_blk[i].p == (u8 *)p) {
    RT_ASSERT(vf_blk[i].n == n, "C04: deallocate called with a different element count than allocate");
    RT_ASSERT(vf_blk[i].id == id, "C04: deallocate through an allocator not equal to the one that allocated");
    vf_blk[i].live = 0; free(p); return; }
  RT_ASSERT(0, "C04: deallocate of a block that is not live (unknown pointer or double free)");
}
#ifndef __CPROVER__
/* native build of the real C++ with std::allocator: the harness TU replaces global operator new/delete by these
 * (only allocations made while vf_main runs are tracked; the owner of std::allocator blocks is id 0) */
int vf_native_tracking = 0;
void *vf_native_new(u64 bytes, u64 esz) {
  void *p = calloc(bytes ? bytes : 1, 1);
  if (!vf_native_tracking) return p;
  return vf_ledger_add(0, esz ? bytes / esz : bytes, p);
}
void vf_native_delete(void *p) {
  if (!p) return;
  for (int i = 0; i < NBLK; i++) if (vf_blk[i].live && vf_blk[i].p == (u8 *)p) { vf_deallocate_unsized(p); return; }
  if (vf_native_tracking) { vf_deallocate_unsized(p); return; }   /* reports the unknown / double free */
  free(p);
}
#endif
u32 vf_live_blocks(void) { u32 c = 0; for (int i = 0; i < NBLK; i++) c += vf_blk[i].live; return c; }
u32 vf_block_is(const void *p, u64 n, u32 id) {
  for (int i = 0; i < NBLK; i++)
    if (vf_blk[i].live && vf_blk[i].p == (const u8 *)p) return vf_blk[i].n == n && vf_blk[i].id == id;
  return 0;
}
u32 vf_nalloc(void) { return vf_nalloc_; }
u32 vf_ndealloc(void) { return vf_ndealloc_; }
u32 vf_last_alloc_id(void) { return vf_last_id; }
u64 vf_last_alloc_n(void) { return vf_last_n; }
u64 vf_max_alloc_n(void) { return vf_max_n; }
u32 vf_ptr_in_object(const void *p, const void *obj, u64 objsize) {
#ifdef __CPROVER__
  return __CPROVER_same_object(p, obj) &&
         __CPROVER_POINTER_OFFSET(p) >= __CPROVER_POINTER_OFFSET(obj) &&
         __CPROVER_POINTER_OFFSET(p) < __CPROVER_POINTER_OFFSET(obj) + objsize;
#else
  return (const u8 *)p >= (const u8 *)obj && (const u8 *)p < (const u8 *)obj + objsize;
#endif
}
u32 vf_ptr_eq(const void *a, const void *b) { return a == b; }

u64 vf_max_size_value = 0;

/* ------------------------------------------------------------------ fault injection */
static u32 vf_f_mask = 0, vf_f_at1 = 0, vf_f_at2 = 0, vf_f_ctr = 0, vf_f_fired = 0;
void vf_fault_arm(u32 mask, u32 at1, u32 at2) { vf_f_mask = mask; vf_f_at1 = at1; vf_f_at2 = at2; vf_f_ctr = 0; }
void vf_fault_disarm(void) { vf_f_mask = 0; }
u32 vf_fault(u32 kind) {
  if (!(vf_f_mask & kind)) return 0;
  vf_f_ctr++;
  if (vf_f_ctr == vf_f_at1 || vf_f_ctr == vf_f_at2) { vf_f_fired++;
#ifndef __CPROVER__
    hmix(0xFA17ULL + kind);
#endif
    return 1; }
  return 0;
}
u32 vf_faults_fired(void) { return vf_f_fired; }
u32 vf_fault_points(void) { return vf_f_ctr; }

/* ------------------------------------------------------------------ element events (shared part) */
static int32_t vf_live_ = 0; static u32 vf_events_ = 0; static u32 vf_cnt[6];
void vf_ev_count(u32 kind) { vf_cnt[kind < 6 ? kind : 0]++; if (kind != 2 && kind != 3) vf_events_++;
#ifndef __CPROVER__
  hmix(0xE0 + kind);
#endif
}
void vf_ev_born(u32 val) { vf_live_++; (void)val;
#ifndef __CPROVER__
  hmix(val);
#endif
}
void vf_ev_died(void) { vf_live_--; }
void vf_ev_val(u32 val) { (void)val;
#ifndef __CPROVER__
  hmix(val);
#endif
}
#ifndef __CPROVER__
/* native builds: liveness is tracked in an exact address-keyed side table, because raw
 * native storage (stack temporaries) is not zero-filled the way the cbmc build makes it */
#define NLIVE 256
static const void *vf_live_tab[NLIVE]; static u32 vf_live_st[NLIVE];
static int tab_find(const void *p) { for (int i = 0; i < NLIVE; i++) if (vf_live_tab[i] == p) return i; return -1; }
u32 vf_st_of(const void *p, u32 in_obj) { (void)in_obj; int i = tab_find(p); return i < 0 ? VF_RAW : vf_live_st[i]; }
void vf_st_note(const void *p, u32 st) {
  int i = tab_find(p);
  if (st == VF_LIVE || st == VF_MOVED) {
    if (i < 0) { i = tab_find(0); if (i < 0) { printf("rt: live table full\n"); exit(3); } vf_live_tab[i] = p; }
    vf_live_st[i] = st;
  } else if (i >= 0) vf_live_tab[i] = 0;
}
#else
u32 vf_st_of(const void *p, u32 in_obj) { (void)p; return in_obj; }
void vf_st_note(const void *p, u32 st) { (void)p; (void)st; }
#endif
int32_t vf_tr_live(void) { return vf_live_; }
u32 vf_tr_events(void) { return vf_events_; }
u32 vf_tr_count(u32 kind) { return vf_cnt[kind < 6 ? kind : 0]; }

#ifdef VF_NATIVE_CXX
/* build C (real C++ harness): generic element layout {val, st, touch} */
struct vf_tr_generic { u32 val, st, touch, pad_; };
#define VF_HOOK_ASSERT(c, m) RT_ASSERT(c, m)
#define VF_F_VAL(p) ((p)->val)
#define VF_F_ST(p) ((p)->st)
#define VF_F_TOUCH(p) ((p)->touch)
#define VF_TR_TYPE struct vf_tr_generic
#define VF_TR_NAME Tr
#include "vf_tr_impl.h"
#define VF_TR_TYPE struct vf_tr_generic
#define VF_TR_NAME TrX
#include "vf_tr_impl.h"
#define VF_TR_TYPE struct vf_tr_generic
#define VF_TR_NAME TrM
#include "vf_tr_impl.h"
#define VF_TR_TYPE struct vf_tr_generic
#define VF_TR_NAME TrMX
#include "vf_tr_impl.h"
#define VF_TR_TYPE struct vf_tr_generic
#define VF_TR_NAME TrC
#include "vf_tr_impl.h"
#define VF_TR_TYPE struct vf_tr_generic
#define VF_TR_NAME TrA
#include "vf_tr_impl.h"
#endif

/* ------------------------------------------------------------------ single-pass stream
 * One stream of `len` positions. An input iterator copy records the cursor value at which it
 * was created/advanced (its snapshot). strict=1 (input category): using a copy whose snapshot
 * is not the current cursor is a violation; strict=0 (forward): only end-overrun is checked. */
#define VF_SMAX 6
static u32 vf_s_len = 0, vf_s_cur = 0, vf_s_deref[VF_SMAX + 1], vf_s_inc[VF_SMAX + 1];
void vf_stream_init(u32 len) { vf_s_len = len; vf_s_cur = 0; for (int i = 0; i <= VF_SMAX; i++) vf_s_deref[i] = vf_s_inc[i] = 0; }
u32 vf_stream_cursor(void) { return vf_s_cur; }
u32 vf_stream_len(void) { return vf_s_len; }
u32 vf_stream_deref(u32 snap, u32 strict) {
  if (strict) RT_ASSERT(snap == vf_s_cur, "C15: dereference of a stale copy of a single-pass iterator");
  RT_ASSERT(snap < vf_s_len, "C15: dereference at or beyond last");
  if (snap < VF_SMAX) vf_s_deref[snap]++;
#ifndef __CPROVER__
  hmix(0xD0 + snap);
#endif
  return snap;
}
u32 vf_stream_inc(u32 snap, u32 strict) {
  if (strict) RT_ASSERT(snap == vf_s_cur, "C15: increment of a stale copy of a single-pass iterator");
  RT_ASSERT(snap < vf_s_len, "C15: increment at or beyond last");
  if (snap < VF_SMAX) vf_s_inc[snap]++;
  if (strict) vf_s_cur = snap + 1;
#ifndef __CPROVER__
  hmix(0x1C + snap);
#endif
  return snap + 1;
}
void vf_stream_cmp(u32 snap, u32 strict) {
  if (strict) RT_ASSERT(snap == vf_s_cur || snap == vf_s_len, "C15: comparison of a stale copy of a single-pass iterator");
}
u32 vf_stream_derefs(u32 pos) { return pos < VF_SMAX ? vf_s_deref[pos] : 0; }
u32 vf_stream_incs(u32 pos) { return pos < VF_SMAX ? vf_s_inc[pos] : 0; }

/* ------------------------------------------------------------------ main */
#ifdef __CPROVER__
int main(void) {
  vf_inputs_v = nondet_vf_inputs();
  vf_main();
  __CPROVER_assert(!vf_exc_active, "rt: exception escaped the harness entry point");
  return 0;
}
#else
int main(int argc, char **argv) {
  /* inputs: argv[1..] decimal/hex words; missing = 0 */
  for (int i = 1; i < argc && i <= VF_NIN; i++) vf_in[i - 1] = (u32)strtoul(argv[i], 0, 0);
  vf_native_tracking = 1;
  vf_main();
  vf_native_tracking = 0;
  if (vf_exc_active) rt_fail("rt: exception escaped the harness entry point");
  printf("HASH %016llx\n", (unsigned long long)vf_hash);
  printf("RESULT %s\n", vf_nfail ? "FAIL" : "OK");
  return vf_nfail ? 1 : 0;
}
#endif
