/* Element-event hooks for one instrumented element type.  Included once per type with
 *   VF_TR_NAME  the C++ type name (Tr, TrX, ...)          -> function suffix
 *   VF_TR_TYPE  the C struct type of the element           (translated struct, or generic)
 *   VF_F_VAL/VF_F_ST/VF_F_TOUCH(p)  field accessors
 * The hooks are compiled inside the translated TU with the element's own struct type so that
 * cbmc sees typed member accesses (a differently-typed pointer makes every access a byte-extract
 * over the whole buffer: measured 4.5x slower symex, 3x more variables). */
#define VF_CAT2(a, b) a##b
#define VF_CAT(a, b) VF_CAT2(a, b)
#define FN(base) VF_CAT(VF_CAT(base, _), VF_TR_NAME)
#define ALIVE_(s) ((s) == VF_LIVE || (s) == VF_MOVED)

static void FN(vf_born)(VF_TR_TYPE *self, uint32_t val) {
  VF_HOOK_ASSERT(!ALIVE_(vf_st_of(self, VF_F_ST(self))), "C03: element constructed over a live element");
  VF_F_VAL(self) = val; VF_F_ST(self) = VF_LIVE; vf_st_note(self, VF_LIVE); vf_ev_born(val);
}
void FN(vf_tr_make)(VF_TR_TYPE *self, uint32_t val) { vf_ev_count(0); VF_F_TOUCH(self)++; FN(vf_born)(self, val); }
void FN(vf_tr_default)(VF_TR_TYPE *self) { vf_ev_count(0); VF_F_TOUCH(self)++; FN(vf_born)(self, 0); }
void FN(vf_tr_copy)(VF_TR_TYPE *self, const VF_TR_TYPE *other) {
  VF_HOOK_ASSERT(ALIVE_(vf_st_of(other, VF_F_ST(other))), "C03: copy-construct from storage that holds no live element");
  vf_ev_count(0); vf_ev_count(2); VF_F_TOUCH(self)++; FN(vf_born)(self, VF_F_VAL(other));
}
void FN(vf_tr_move)(VF_TR_TYPE *self, VF_TR_TYPE *other) {
  VF_HOOK_ASSERT(ALIVE_(vf_st_of(other, VF_F_ST(other))), "C03: move-construct from storage that holds no live element");
  vf_ev_count(0); vf_ev_count(3); VF_F_TOUCH(self)++; FN(vf_born)(self, VF_F_VAL(other));
  VF_F_ST(other) = VF_MOVED; vf_st_note(other, VF_MOVED); VF_F_TOUCH(other)++;
}
void FN(vf_tr_cassign)(VF_TR_TYPE *self, const VF_TR_TYPE *other) {
  uint32_t ss = vf_st_of(self, VF_F_ST(self));
  VF_HOOK_ASSERT(ALIVE_(ss), "C03: copy-assign to storage that holds no live element");
  VF_HOOK_ASSERT(ALIVE_(vf_st_of(other, VF_F_ST(other))), "C03: copy-assign from storage that holds no live element");
  vf_ev_count(4); VF_F_TOUCH(self)++; VF_F_VAL(self) = VF_F_VAL(other);
  if (ALIVE_(ss)) { VF_F_ST(self) = VF_LIVE; vf_st_note(self, VF_LIVE); }
  vf_ev_val(VF_F_VAL(self));
}
void FN(vf_tr_massign)(VF_TR_TYPE *self, VF_TR_TYPE *other) {
  uint32_t ss = vf_st_of(self, VF_F_ST(self)), so = vf_st_of(other, VF_F_ST(other));
  VF_HOOK_ASSERT(ALIVE_(ss), "C03: move-assign to storage that holds no live element");
  VF_HOOK_ASSERT(ALIVE_(so), "C03: move-assign from storage that holds no live element");
  vf_ev_count(5); VF_F_TOUCH(self)++; VF_F_VAL(self) = VF_F_VAL(other);
  if (self != other) {
    if (ALIVE_(ss)) { VF_F_ST(self) = VF_LIVE; vf_st_note(self, VF_LIVE); }
    if (ALIVE_(so)) { VF_F_ST(other) = VF_MOVED; vf_st_note(other, VF_MOVED); }
    VF_F_TOUCH(other)++;
  }
  vf_ev_val(VF_F_VAL(self));
}
void FN(vf_tr_dtor)(VF_TR_TYPE *self) {
  uint32_t ss = vf_st_of(self, VF_F_ST(self));
  VF_HOOK_ASSERT(ALIVE_(ss), "C03: destroy of storage that holds no live element (double destroy?)");
  vf_ev_count(1); VF_F_TOUCH(self)++;
  if (ALIVE_(ss)) vf_ev_died();
  VF_F_ST(self) = VF_DEAD; vf_st_note(self, VF_DEAD);
}
uint32_t FN(vf_tr_state)(const VF_TR_TYPE *self) { return vf_st_of(self, VF_F_ST(self)); }
uint32_t FN(vf_tr_touch)(const VF_TR_TYPE *self) { return VF_F_TOUCH(self); }
uint32_t FN(vf_tr_val)(const VF_TR_TYPE *self) { return VF_F_VAL(self); }
#undef FN
#undef ALIVE_
#undef VF_CAT
#undef VF_CAT2
#undef VF_TR_NAME
#undef VF_TR_TYPE
