/* Shared declarations of the verification runtime (environment model).
 * Everything here is part of the trusted base and is listed in evidence "assumptions".
 * The same C file (vf_rt.c) is used in three builds:
 *   A. cbmc:   translated harness C  + vf_rt.c               (__CPROVER__ defined)
 *   B. gcc:    translated harness C  + vf_rt.c  -DVF_NATIVE  (translator validation)
 *   C. g++ / clang++: harness .cpp   + vf_rt.c  -DVF_NATIVE  (real code: replay + validation)
 */
#ifndef VF_RT_H
#define VF_RT_H
#include <stdint.h>
#include <stddef.h>

#ifdef __cplusplus
#define VF_NOEXCEPT noexcept
extern "C" {
#else
#define VF_NOEXCEPT
#endif

/* fault kinds (bit mask) */
#define VF_K_ALLOC     1u
#define VF_K_COPY      2u
#define VF_K_MOVE      4u
#define VF_K_CASSIGN   8u
#define VF_K_MASSIGN   16u
#define VF_K_DEFAULT   32u
#define VF_K_DEREF     64u
#define VF_K_INC       128u
#define VF_K_CMP       256u
#define VF_K_GEN       512u
#define VF_K_VALUE     1024u
#define VF_K_SWAP      2048u

/* element shadow states (in-object, owned by the C side) */
#define VF_RAW   0u
#define VF_LIVE  1u
#define VF_MOVED 2u
#define VF_DEAD  3u

/* inputs: all symbolic inputs of a harness are drawn, unconditionally and in a fixed
 * order, from vf_in[] so that a counterexample is one vector */
uint32_t vf_in_u32(void) VF_NOEXCEPT;
void     vf_assume(uint32_t c) VF_NOEXCEPT;
void     vf_assert(uint32_t c, const char *msg) VF_NOEXCEPT;
void     vf_witness(const char *msg) VF_NOEXCEPT;
void     vf_check(uint32_t c, const char *msg) VF_NOEXCEPT;   /* native builds: un-hashed assertion */   /* reachability witness: must be reachable */
void     vf_obs(uint64_t x) VF_NOEXCEPT;            /* observation (differential validation hash) */

/* allocator ledger */
void    *vf_allocate(uint32_t id, uint64_t n, uint64_t elem) VF_NOEXCEPT;
void    *vf_ledger_add(uint32_t id, uint64_t n, void *p) VF_NOEXCEPT;
void     vf_deallocate(uint32_t id, void *p, uint64_t n, uint64_t elem) VF_NOEXCEPT;
void     vf_deallocate_unsized(void *p) VF_NOEXCEPT;
void    *vf_native_new(uint64_t bytes, uint64_t esz) VF_NOEXCEPT;   /* native real-C++ builds only */
void     vf_native_delete(void *p) VF_NOEXCEPT;
uint32_t vf_live_blocks(void) VF_NOEXCEPT;
uint32_t vf_block_is(const void *p, uint64_t n, uint32_t id) VF_NOEXCEPT; /* live block (p,n) owned by id */
uint32_t vf_nalloc(void) VF_NOEXCEPT;               /* number of allocate calls so far */
uint32_t vf_ndealloc(void) VF_NOEXCEPT;
uint32_t vf_last_alloc_id(void) VF_NOEXCEPT;
uint64_t vf_last_alloc_n(void) VF_NOEXCEPT;
uint64_t vf_max_alloc_n(void) VF_NOEXCEPT;
uint32_t vf_ptr_in_object(const void *p, const void *obj, uint64_t objsize) VF_NOEXCEPT;
uint32_t vf_ptr_eq(const void *a, const void *b) VF_NOEXCEPT;

/* fault injection: the throw point is an input (solver variable) */
void     vf_fault_arm(uint32_t mask, uint32_t at1, uint32_t at2) VF_NOEXCEPT;
void     vf_fault_disarm(void) VF_NOEXCEPT;
uint32_t vf_fault(uint32_t kind) VF_NOEXCEPT;
uint32_t vf_faults_fired(void) VF_NOEXCEPT;
uint32_t vf_fault_points(void) VF_NOEXCEPT;         /* number of fault opportunities seen while armed */

/* element events: type-specific hooks vf_tr_<event>_<Type>(Type*, ...) are declared next to the
 * element types (harness/vf.hpp) and implemented by rt/vf_tr_impl.h; shared counters: */
void     vf_ev_count(uint32_t kind) VF_NOEXCEPT;     /* 0 ctor(any) 1 dtor 2 copy 3 move 4 cassign 5 massign */
void     vf_ev_born(uint32_t val) VF_NOEXCEPT;
void     vf_ev_died(void) VF_NOEXCEPT;
void     vf_ev_val(uint32_t val) VF_NOEXCEPT;
uint32_t vf_st_of(const void *p, uint32_t in_object_state) VF_NOEXCEPT;
void     vf_st_note(const void *p, uint32_t st) VF_NOEXCEPT;
int32_t  vf_tr_live(void) VF_NOEXCEPT;               /* number of live instrumented objects */
uint32_t vf_tr_events(void) VF_NOEXCEPT;             /* total element events so far */
uint32_t vf_tr_count(uint32_t kind) VF_NOEXCEPT;

/* instrumented iterators / generator (one stream) */
void     vf_stream_init(uint32_t len) VF_NOEXCEPT;
uint32_t vf_stream_cursor(void) VF_NOEXCEPT;
uint32_t vf_stream_deref(uint32_t snap, uint32_t strict) VF_NOEXCEPT; /* returns position */
uint32_t vf_stream_inc(uint32_t snap, uint32_t strict) VF_NOEXCEPT;   /* returns new position */
void     vf_stream_cmp(uint32_t snap, uint32_t strict) VF_NOEXCEPT;
uint32_t vf_stream_derefs(uint32_t pos) VF_NOEXCEPT;
uint32_t vf_stream_incs(uint32_t pos) VF_NOEXCEPT;
uint32_t vf_stream_len(void) VF_NOEXCEPT;

/* entry point implemented by the harness */
void vf_main(void);

#ifdef __cplusplus
}
#endif
#endif
